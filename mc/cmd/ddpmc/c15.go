package main

// C15 — a generic call behaves like its monomorphic specialisation (shape S, differential).
//
// Bounded exhaustive enumeration of (generic body family × argument type tuple × call site × call
// history). For every case the generic program and its SPECIALISED TWIN (the same text with the type
// parameters replaced textually by the concrete types, `generische` removed, one copy per used type
// tuple) are compiled by the real compiler and run; stdout and exit status must be identical.
// Independent oracles from the property text:
//   - a call whose body is ill-typed for one type is diagnosed, every time, and later valid calls are
//     still accepted (history after-failed);
//   - binding one type parameter to two different argument types is diagnosed;
//   - a body naming a variable that exists only at the call site is rejected (the twin is);
//   - instantiations of a generic Kombination with equal type arguments are the same type (assignable,
//     `v eine A-Box ist` true), with different arguments different types (assignment rejected, test false).

import (
	"fmt"
	"os"
	"path/filepath"
	"regexp"
	"sort"
	"strings"
	"sync"
	"sync/atomic"
	"time"

	"ddpmc/internal/ev"
	"ddpmc/internal/fe"
	"ddpmc/internal/par"
	"ddpmc/internal/pool"
	"ddpmc/internal/rx"
)

type c15Obs struct {
	stage  string // "" built and run | "rejected" (frontend diagnostics) | "crash:<stage>" | "infra"
	detail string
	stdout string
	exit   int
	class  string
}

var c15Builds, c15Runs int64

const c15BatchSize = 32
const c15MaxFailing = 400

func c15BuildRun(files map[string]string, opt uint) c15Obs {
	dir := rx.Scratch("c15")
	defer os.RemoveAll(dir)
	rx.WriteFiles(dir, files)
	b := rx.Build(dir, "main.ddp", rx.BuildOpts{Opt: opt})
	atomic.AddInt64(&c15Builds, 1)
	if !b.OK {
		d := ""
		for _, x := range b.Resp.Diags {
			if x.Level == 2 {
				d += x.String() + "\n"
			}
		}
		if b.Stage == "frontend" && d != "" {
			return c15Obs{stage: "rejected", detail: firstLines(d, 8)}
		}
		if b.Stage == "timeout" { // loaded machine: retry once
			b = rx.Build(dir, "main.ddp", rx.BuildOpts{Opt: opt})
			if !b.OK && b.Stage == "timeout" {
				return c15Obs{stage: "infra", detail: "compile timeout twice"}
			}
		}
		if !b.OK {
			return c15Obs{stage: "crash:" + b.Stage, detail: firstLines(b.Log+"\n"+b.Resp.Panic+"\n"+b.Resp.PanicSite, 8)}
		}
	}
	r := rx.RunRobust(b.Exe, rx.RunOpts{})
	atomic.AddInt64(&c15Runs, 1)
	if r.Infra {
		return c15Obs{stage: "infra", detail: r.Stderr}
	}
	return c15Obs{stdout: r.Stdout, exit: r.Exit, class: r.Class(), detail: firstLines(r.Stderr, 4)}
}

// c15Verdict compares the generic program's observation with the twin's.
// kind "" = equal, "twin-broken" = the twin itself does not build/run (generator problem, never a C15 finding)
func c15Verdict(g, t c15Obs) (kind, what string) {
	if g.stage == "infra" || t.stage == "infra" {
		return "infra", g.detail + t.detail
	}
	if t.stage != "" || strings.HasPrefix(t.class, "signal") || t.class == "timeout" || t.class == "flood" {
		return "twin-broken", "twin: " + t.stage + " " + t.class + "\n" + t.detail
	}
	switch {
	case g.stage == "rejected":
		return "generic-rejected-but-twin-accepted", "the frontend rejects the generic program:\n" + g.detail
	case g.stage != "":
		return "crash", "the generic program cannot be compiled (" + g.stage + "):\n" + g.detail
	case strings.HasPrefix(g.class, "signal") || g.class == "timeout" || g.class == "flood":
		return "crash", "the generic program ends with " + g.class + " (twin: " + t.class + ")\n" + g.detail
	case g.stdout != t.stdout || g.exit != t.exit || g.class != t.class:
		return "differs-from-twin", fmt.Sprintf("generic: exit %d (%s) stdout %s\ntwin:    exit %d (%s) stdout %s\n%s", g.exit, g.class, firstRunes(c15Diff(g.stdout, t.stdout), 300), t.exit, t.class, firstRunes(c15Diff(t.stdout, g.stdout), 300), g.detail)
	}
	return "", ""
}

// c15Diff returns a from the first line that differs from b (with one line of context)
func c15Diff(a, b string) string {
	la, lb := strings.Split(a, "\n"), strings.Split(b, "\n")
	i := 0
	for i < len(la) && i < len(lb) && la[i] == lb[i] {
		i++
	}
	if i > 0 {
		i--
	}
	return strings.Join(la[i:], "\n")
}

var c15HexRe = regexp.MustCompile(`[0-9a-f]{16,}|[0-9]+`)
var c15QuoteRe = regexp.MustCompile(`'[^']*'|%"[^"]*"|%[A-Za-z0-9_.\-]+\**`)

type c15Fail struct {
	order  int
	key    string // <family>:<tuple>:<site>:<history>
	tuple  string
	kind   string
	what   string
	sig    string
	files  map[string]string
	rerun  func() string // re-executes the case: kind + "\n" + what
	// how sig was computed from what (for the confirmation)
	sigTuple, whatPrefix string
}

// c15Sig: the symptom of a failing case. Crashes and rejections are identified by their message within a
// coarse scope (the body family, or "AB" for cases that use both same-named Kombinationen); other kinds by
// family and type tuple. scope = "<coarse>|<fine>".
func c15Sig(kind, scope, what string) string {
	tuple := scope
	if cf := strings.SplitN(scope, "|", 2); len(cf) == 2 {
		tuple = cf[1]
		if kind != "differs-from-twin" && kind != "two-types-accepted" && kind != "struct-instance-identity" {
			tuple = cf[0]
		}
	}
	first := ""
	for _, l := range strings.Split(what, "\n")[1:] {
		if strings.TrimSpace(l) != "" {
			first = l
			break
		}
	}
	if kind == "differs-from-twin" {
		first = ""
	}
	// names of functions and types are case specific: the symptom is the message without them
	first = c15HexRe.ReplaceAllString(c15QuoteRe.ReplaceAllString(first, "'…'"), "#")
	if i := strings.Index(first, " | "); i > 0 {
		first = first[:i]
	}
	if len(first) > 120 {
		first = first[:120]
	}
	return kind + "|" + tuple + "|" + first
}

func c15PairFiles(gen, twin map[string]string, opt uint, g, t c15Obs) map[string]string {
	out := map[string]string{"mode.txt": "twin", "opt.txt": fmt.Sprint(opt), "generic.out.txt": fmt.Sprintf("stage=%s exit=%d class=%s\n%s\n--\n%s", g.stage, g.exit, g.class, g.stdout, g.detail),
		"twin.out.txt": fmt.Sprintf("stage=%s exit=%d class=%s\n%s\n--\n%s", t.stage, t.exit, t.class, t.stdout, t.detail)}
	for n, s := range gen {
		out["generic/"+n] = s
	}
	for n, s := range twin {
		out["twin/"+n] = s
	}
	return out
}

func runC15(tier string) int {
	c := ev.New("C15", tier)
	c.Budget(map[string]int{"quick": 420, "thorough": 2700}[tier])
	types, fams := c15Types(), c15Families()
	opts := []uint{1}
	if tier == "thorough" {
		opts = []uint{1, 0, 2}
	}
	var mu sync.Mutex
	var fails []*c15Fail
	addFail := func(f *c15Fail) { mu.Lock(); fails = append(fails, f); mu.Unlock() }
	broken := map[string]bool{}

	// ---- phase 1: twin pairs ------------------------------------------------------------------
	cases, excluded := c15Cases(tier, types, fams)
	if flt := os.Getenv("C15_ONLY"); flt != "" { // development aid: restrict to cases whose key contains one of the comma-separated strings
		var keep []*c15Case
		for _, cs := range cases {
			for _, f := range strings.Split(flt, ",") {
				if strings.Contains(cs.key(), f) {
					keep = append(keep, cs)
					break
				}
			}
		}
		cases = keep
		c.Capped("C15_ONLY filter active")
	}
	if ph := os.Getenv("C15_PHASE"); ph != "" && !strings.Contains(ph, "1") {
		cases = nil
	}
	for i, cs := range cases {
		cs.n = i + 1
	}
	type batchT struct {
		idx   int
		cases []*c15Case
	}
	var batches []batchT
	{
		groups := map[string][]*c15Case{}
		var order []string
		for _, cs := range cases {
			// cases that use one / the other / both same-named Kombinationen are kept apart: cases of one batch share a
			// program, and two cases must not collide where a single case does not
			g := cs.site + cs.dings()
			if _, ok := groups[g]; !ok {
				order = append(order, g)
			}
			groups[g] = append(groups[g], cs)
		}
		size := c15BatchSize
		for _, g := range order {
			l := groups[g]
			for i := 0; i < len(l); i += size {
				batches = append(batches, batchT{len(batches), l[i:min(i+size, len(l))]})
			}
		}
	}
	var pairsOK, programs, singles, failing int64
	famSeen, siteSeen := map[string]int{}, map[string]int{}
	checkCases := func(cs []*c15Case, opt uint) (kind, what string, files map[string]string) {
		gen, twin := c15Assemble(cs, false), c15Assemble(cs, true)
		if d := os.Getenv("C15_DUMP"); d != "" { // development aid
			sub := filepath.Join(d, fmt.Sprintf("%s_%d_%d", cs[0].site, cs[0].n, len(cs)))
			rx.WriteFiles(filepath.Join(sub, "generic"), gen)
			rx.WriteFiles(filepath.Join(sub, "twin"), twin)
		}
		g, t := c15BuildRun(gen, opt), c15BuildRun(twin, opt)
		atomic.AddInt64(&programs, 2)
		kind, what = c15Verdict(g, t)
		return kind, what, c15PairFiles(gen, twin, opt, g, t)
	}
	par.Each(batches, 0, func(_ int, b batchT) {
		for _, opt := range opts {
			if c.Expired() {
				c.Capped("deadline: twin batches skipped")
				return
			}
			kind, what, _ := checkCases(b.cases, opt)
			if kind == "" {
				atomic.AddInt64(&pairsOK, int64(len(b.cases)))
				continue
			}
			if kind == "infra" {
				c.Broken("cannot execute programs: " + what)
				return
			}
			// attribute to single cases (confirmation by re-execution happens later, for the reported representatives only)
			found := false
			if atomic.LoadInt64(&failing) >= int64(c15MaxFailing*len(opts)) {
				c.Capped(fmt.Sprintf("more than %d failing cases: further failing batches are not attributed to single cases", c15MaxFailing*len(opts)))
				addFail(&c15Fail{order: 1<<30 + b.idx, key: fmt.Sprintf("unattributed-batch:%s:%d:O%d", b.cases[0].site, b.idx, opt), kind: kind, what: "a batch of cases fails (not attributed to single cases: too many failures)\n" + what, sig: fmt.Sprint("unattributed", b.idx), files: map[string]string{}})
				continue
			}
			for _, cs := range b.cases {
				if c.Expired() {
					c.Capped("deadline: attribution of a failing batch to single cases cut short")
					return
				}
				atomic.AddInt64(&singles, 1)
				cs := cs
				k1, w1, files := checkCases([]*c15Case{cs}, opt)
				if k1 == "" {
					atomic.AddInt64(&pairsOK, 1)
					continue
				}
				if k1 == "infra" {
					c.Broken("cannot execute programs: " + w1)
					continue
				}
				found = true
				atomic.AddInt64(&failing, 1)
				opt := opt
				addFail(&c15Fail{order: cs.n, key: cs.key(), kind: k1, what: fmt.Sprintf("-O%d: %s", opt, w1), sig: c15Sig(k1, cs.scope(), w1), files: files,
					sigTuple: cs.scope(), whatPrefix: fmt.Sprintf("-O%d: ", opt),
					rerun: func() string { k, w, _ := checkCases([]*c15Case{cs}, opt); return k + "\n" + fmt.Sprintf("-O%d: %s", opt, w) }})
			}
			if !found {
				cases, opt := b.cases, opt
				_, what2, files := checkCases(cases, opt)
				addFail(&c15Fail{order: 1 << 30, key: fmt.Sprintf("batch-only:%s:%d:O%d", b.cases[0].site, b.idx, opt), kind: kind, what: "fails only as a batch of cases\n" + what + "\n" + what2, sig: fmt.Sprint("batch", b.idx), files: files})
				_, _ = cases, opt
			}
		}
	})
	for _, cs := range cases {
		famSeen[cs.fam.key]++
		siteSeen[cs.site]++
	}

	// ---- phase 2: diagnostics ------------------------------------------------------------------
	negs := c15Negatives(tier, types, fams)
	if ph := os.Getenv("C15_PHASE"); ph != "" && !strings.Contains(ph, "2") {
		negs = nil
	}
	var negLines, negPrograms int64
	{
		groups := map[string][]*c15Neg{}
		var order []string
		for _, ng := range negs {
			if _, ok := groups[ng.site]; !ok {
				order = append(order, ng.site)
			}
			groups[ng.site] = append(groups[ng.site], ng)
		}
		var nb [][]*c15Neg
		for _, g := range order {
			l := groups[g]
			for i := 0; i < len(l); i += 20 {
				nb = append(nb, l[i:min(i+20, len(l))])
			}
		}
		par.Each(nb, 0, func(_ int, b []*c15Neg) {
			if c.Expired() {
				c.Capped("deadline: diagnostic batches skipped")
				return
			}
			atomic.AddInt64(&negPrograms, 1)
			res := c15CheckNeg(b)
			if res.infra != "" {
				c.Broken("frontend worker: " + res.infra)
				return
			}
			if len(res.findings) == 0 {
				for _, ng := range b {
					atomic.AddInt64(&negLines, int64(len(ng.stmts)))
				}
				return
			}
			for _, ng := range b {
				atomic.AddInt64(&negPrograms, 1)
				r1 := c15CheckNeg([]*c15Neg{ng})
				if len(r1.findings) == 0 {
					atomic.AddInt64(&negLines, int64(len(ng.stmts)))
					continue
				}
				r2, r3 := c15CheckNeg([]*c15Neg{ng}), c15CheckNeg([]*c15Neg{ng})
				if fmt.Sprint(r2.findings) != fmt.Sprint(r1.findings) || fmt.Sprint(r3.findings) != fmt.Sprint(r1.findings) {
					c.Add("flaky_not_reported", 1)
					continue
				}
				f := r1.findings[0]
				files := map[string]string{"mode.txt": "diag", "expect_lines.txt": r1.expect, "diagnostics.txt": r1.diags}
				for n, s := range r1.files {
					files["prog/"+n] = s
				}
				addFail(&c15Fail{order: 1<<20 + ng.n, key: ng.key, tuple: ng.tuple, kind: f.kind, what: f.what + "\nall diagnostics:\n" + r1.diags, sig: c15Sig(f.kind, ng.fam+"|"+ng.fam+":"+ng.tuple, "\n"+f.sig), files: files})
			}
		})
	}

	// ---- phase 3: identity of generic Kombination instances ------------------------------------
	var identRows, identChecks int64
	for _, variant := range []string{"decl", "importer"} {
		if ph := os.Getenv("C15_PHASE"); ph != "" && !strings.Contains(ph, "3") {
			break
		}
		for _, opt := range opts {
			if c.Expired() {
				c.Capped("deadline: identity programs skipped")
				break
			}
			rows := c15IdentRows(types)
			fs := c15IdentRun(variant, rows, opt, &identChecks)
			atomic.AddInt64(&programs, 1)
			if len(fs) > 0 && len(rows) > 1 { // attribute to rows
				fs = nil
				for _, r := range rows {
					fs = append(fs, c15IdentRun(variant, []*c15Ty{r}, opt, &identChecks)...)
					atomic.AddInt64(&programs, 1)
				}
				if len(fs) == 0 {
					fs = c15IdentRun(variant, rows, opt, &identChecks)
				}
			}
			for _, f := range fs {
				if f.kind == "infra" {
					c.Broken(f.what)
					continue
				}
				addFail(f)
			}
			identRows += int64(len(rows))
		}
		fs := c15IdentNeg(variant, types, &identChecks)
		for _, f := range fs {
			if f.kind == "infra" {
				c.Broken(f.what)
				continue
			}
			addFail(f)
		}
	}

	// ---- report --------------------------------------------------------------------------------
	sort.SliceStable(fails, func(i, j int) bool { return fails[i].order < fails[j].order })
	bySig := map[string]*c15Fail{}
	suppressed := map[string][]string{}
	var reported []*c15Fail
	for _, f := range fails {
		if first, ok := bySig[f.sig]; ok {
			suppressed[first.key] = append(suppressed[first.key], f.key)
			continue
		}
		if f.kind == "twin-broken" {
			broken[f.key+": "+firstLines(f.what, 6)] = true
			continue
		}
		if f.rerun != nil { // soundness: the same verdict and symptom three times (the wording may name the colliding symbols in either order)
			same := func() bool {
				kw := strings.SplitN(f.rerun(), "\n", 2)
				return len(kw) == 2 && kw[0] == f.kind && c15Sig(kw[0], f.sigTuple, strings.TrimPrefix(kw[1], f.whatPrefix)) == f.sig
			}
			if !same() || !same() {
				c.Add("flaky_not_reported", 1)
				continue
			}
		}
		bySig[f.sig] = f
		reported = append(reported, f)
	}
	nSupp := 0
	for _, f := range reported {
		what := f.what
		if s := suppressed[f.key]; len(s) > 0 {
			nSupp += len(s)
			what += fmt.Sprintf("\n%d further cases show the same symptom (not reported separately): %s", len(s), strings.Join(s[:min(len(s), 40)], " "))
			f.files["same_symptom_cases.txt"] = strings.Join(s, "\n") + "\n"
		}
		c.Violation("C15:"+f.kind+":"+f.key, what, f.files)
	}
	if len(broken) > 0 {
		var bl []string
		for k := range broken {
			bl = append(bl, k)
		}
		sort.Strings(bl)
		c.Broken(fmt.Sprintf("%d specialised twins do not build/run (generator problem, not a C15 finding); first: %s", len(bl), bl[0]))
	}
	for k, v := range excluded {
		c.Add("excluded_"+k, int64(v))
	}
	c.Add("excluded_unspecified", int64(excluded["nested_list_twin_not_expressible"]))
	c.Set("same_symptom_suppressed", nSupp)
	c.Set("failing_cases_before_minimisation", len(fails))
	c.Set("twin_pairs", len(cases))
	c.Set("twin_pairs_equal", pairsOK)
	c.Set("batches", len(batches))
	c.Set("programs_built", atomic.LoadInt64(&c15Builds))
	c.Set("programs_run", atomic.LoadInt64(&c15Runs))
	c.Set("single_case_reruns", singles)
	c.Set("diagnostic_cases", len(negs))
	c.Set("diagnostic_programs", negPrograms)
	c.Set("diagnostic_statements_checked", negLines)
	c.Set("identity_rows", identRows)
	c.Set("identity_checks", identChecks)
	c.Set("cases_per_family", famSeen)
	c.Set("cases_per_site", siteSeen)
	c.Set("opt_levels", opts)
	c.Set("evaluations", atomic.LoadInt64(&c15Builds)+negPrograms)
	c.Set("states", len(cases)+len(negs)+int(identRows))
	c.Set("transitions", atomic.LoadInt64(&c15Runs)+negPrograms)
	c.Set("traces_validated_against_impl", atomic.LoadInt64(&c15Runs)+negPrograms)
	c.Set("distinct_nontrivial", len(cases)+len(negs))
	c.Set("rule", "state = (generic body family, argument type tuple, call site, call history); the generic program and its textual specialisation (one monomorphic copy per used type tuple) must print the same and exit alike; ill-typed instantiations, two types for one parameter and call-site variables must be diagnosed on exactly their lines; Box instances are identical exactly for equal type arguments; distinct_nontrivial = twin pairs + diagnostic cases")
	var tk, fk []string
	for _, t := range types {
		tk = append(tk, t.key)
	}
	for _, f := range fams {
		fk = append(fk, f.key)
	}
	c.Set("bounds", map[string]any{"types": tk, "families": fk, "sites": c15Sites, "histories": append(append([]string{}, c15Hists...), "after-failed (diagnostics)"),
		"two_parameter_tuples": map[string]string{"quick": "every type once as T and as R (rotation) + 3 equal pairs", "thorough": "all 100 ordered pairs"}[tier], "batch": c15BatchSize})
	if len(cases) > 0 {
		c.Sample(map[string]any{"case": cases[0].key()})
		c.Sample(map[string]any{"case": cases[len(cases)/2].key(), "generic_d": firstRunes(c15Assemble([]*c15Case{cases[len(cases)/2]}, false)["d.ddp"], 500)})
		c.Sample(map[string]any{"case": cases[len(cases)-1].key()})
	}
	if len(negs) > 0 {
		c.Sample(map[string]any{"diagnostic_case": negs[0].key})
		c.Sample(map[string]any{"diagnostic_case": negs[len(negs)-1].key})
	}
	c.Assume("the twin names the second of two same-named Kombinationen `Ding2` (a specialised function must be able to name both types in one module); type names are never printed",
		"twin copies of one function share its alias and are selected by parameter type (overloading), their function names get a suffix",
		"mutual recursion in the twin needs a forward declaration (`wird später definiert`); a generic function cannot be forward-declared",
		"a body that calls a function existing ONLY at the call site is accepted by design (generic symbol table: call-site non-variables) and not part of the space; a call-site VARIABLE must not be visible",
		"T = Zahlen Liste with a body building a `T Liste` would need a nested list in the twin, which can only be spelled through a type alias of a list (known code generator crash): excluded and counted",
		"same symptom (kind, normalised first message line) is reported once, for the first case in canonical order; the other cases are listed in same_symptom_cases.txt")
	return c.Finish()
}

// ---------------------------------------------------------------------------------------------
// diagnostics programs

type c15Stmt struct {
	text string
	bad  bool
	what string // why it must (not) be diagnosed
}

type c15Neg struct {
	n      int
	key    string // <family>:<tuple>:<site>:<history>
	fam    string
	tuple  string
	site   string // decl-main | importer | importer-fn | in-generic
	kindIf string // kind reported when a bad statement is accepted
	dDecl  string // declarations of the declaring module
	iDecl  string // declarations of module i (outer generics)
	mDecl  string // declarations of the calling module
	stmts  []c15Stmt
}

var c15NegSites = []string{"decl-main", "importer", "importer-fn", "in-generic"}

func c15Negatives(tier string, types []*c15Ty, fams []*c15Fam) []*c15Neg {
	var out []*c15Neg
	n := 0
	mk := func(f *c15Fam, site string) (*c15Neg, *c15Call) {
		n++
		ng := &c15Neg{n: n, fam: f.key, site: site}
		cs := &c15Case{n: n, fam: f}
		ng.dDecl = f.generic(n)
		if f.shared != nil {
			ng.dDecl = f.shared(n) + ng.dDecl
		}
		if site == "in-generic" {
			ng.iDecl = c15Outer(cs)
		}
		return ng, &c15Call{n: n, outer: site == "in-generic"}
	}
	good := func(ng *c15Neg, f *c15Fam, cx *c15Call, ts []*c15Ty, vi int) {
		cx.ts, cx.vi = ts, vi
		cx.k++
		for _, l := range f.calls(cx) {
			ng.stmts = append(ng.stmts, c15Stmt{text: l, what: "valid call with " + c15TupleKey(ts)})
		}
	}
	// history after-failed: an instantiation that is ill-typed inside the body, repeated, then a valid one, then the bad one again
	for _, f := range fams {
		for _, bk := range f.bad {
			bt := byKey(types, bk)
			for _, t := range types {
				if !f.applies([]*c15Ty{t}) {
					continue
				}
				for _, site := range c15NegSites {
					ng, cx := mk(f, site)
					ng.key = f.key + ":" + t.key + "<" + bk + ":" + site + ":after-failed"
					ng.tuple = t.key + "<" + bk
					ng.kindIf = "differs-from-twin"
					badCall := cx.fn("f") + " " + bt.vals[0] + "."
					w := "the body of " + f.key + " is ill-typed for " + bk + " (the specialised twin is rejected)"
					ng.stmts = append(ng.stmts, c15Stmt{badCall, true, w}, c15Stmt{badCall, true, w + " — second identical call"})
					good(ng, f, cx, []*c15Ty{t}, 0)
					ng.stmts = append(ng.stmts, c15Stmt{cx.fn("f") + " " + bt.vals[1] + ".", true, w + " — after a valid instantiation"})
					good(ng, f, cx, []*c15Ty{t}, 1)
					out = append(out, ng)
				}
			}
		}
	}
	// one type parameter bound to two different argument types
	for _, f := range fams {
		if f.twoTypes == nil {
			continue
		}
		for _, site := range []string{"decl-main", "importer", "in-generic"} {
			if tier == "quick" && site == "in-generic" && f.key != "eq" {
				continue
			}
			for _, a := range types {
				ng, cx := mk(f, site)
				ng.key = f.key + ":" + a.key + "+*:" + site + ":first"
				ng.tuple = a.key + "+*"
				ng.kindIf = "two-types-accepted"
				for _, b := range types {
					if a.canonKey() == b.canonKey() {
						continue
					}
					pre, call := f.twoTypes(cx, a, b)
					if call == "" {
						continue
					}
					for _, p := range pre {
						ng.stmts = append(ng.stmts, c15Stmt{text: p, what: "declaration"})
					}
					ng.stmts = append(ng.stmts, c15Stmt{call, true, "T is bound to " + a.key + " and to " + b.key})
				}
				if len(ng.stmts) == 0 {
					continue
				}
				if f.applies([]*c15Ty{a}) {
					good(ng, f, cx, []*c15Ty{a}, 0)
				}
				out = append(out, ng)
			}
		}
	}
	// one type parameter bound to two different argument types through the type arguments of a generic
	// Kombination, in the parameters of a generic OPERATOR overload and of a generic function alias
	// (each case declares its own Kombination so that the overloads of different cases do not meet)
	kop := &c15Fam{key: "kisteop", nT: 1, entries: []c15Entry{{name: "f", params: "mit den Parametern a und b vom Typ T-Kiste{n} und T-Kiste{n}", ret: c15RetT, args: "<a> <b>", fwd: "a b"}},
		generic: func(n int) string {
			return c15N("Wir nennen die generische öffentliche Kombination aus\n\tdem öffentlichen T wert{n},\neine Kiste{n}, und erstellen sie so:\n\t\"eine Kiste{n} mit <wert{n}>\"\n\n"+
				"Die öffentliche generische Funktion kop{n} mit den Parametern a und b vom Typ T-Kiste{n} und T-Kiste{n}, gibt ein T zurück, macht:\n\tGib wert{n} von a zurück.\nUnd überlädt den \"plus\" Operator.\n\n"+
				c15Fun("f{n}", "mit den Parametern a und b vom Typ T-Kiste{n} und T-Kiste{n}", c15RetT, []string{"Gib wert{n} von b zurück."}, "f{n} <a> <b>"), n)
		}}
	for _, site := range []string{"decl-main", "importer"} {
		for _, a := range types {
			if !a.declarable || a.structLike || a.list == "" {
				continue
			}
			ng, cx := mk(kop, site)
			ng.key = "kisteop:" + a.key + "+*:" + site + ":first"
			ng.tuple = a.key + "+*"
			ng.kindIf = "two-types-accepted"
			k := fmt.Sprintf("Kiste%d", ng.n)
			x := cx.tmp()
			ng.stmts = append(ng.stmts, c15Stmt{text: "Die " + a.name + "-" + k + " " + x + " ist eine " + k + " mit " + a.vals[0] + ".", what: "declaration"},
				c15Stmt{text: c15Line("(wert" + fmt.Sprint(ng.n) + " von " + x + ")"), what: "valid field access"})
			for _, b := range types {
				if !b.declarable || b.structLike || b.list == "" || a.canonKey() == b.canonKey() {
					continue
				}
				y := cx.tmp()
				ng.stmts = append(ng.stmts, c15Stmt{text: "Die " + b.name + "-" + k + " " + y + " ist eine " + k + " mit " + b.vals[0] + ".", what: "declaration"},
					c15Stmt{"Die Variable " + cx.tmp() + " ist (" + x + " plus " + y + ").", true, "operator overload: T is bound to " + a.key + " and to " + b.key},
					c15Stmt{"Die Variable " + cx.tmp() + " ist (" + cx.fn("f") + " " + x + " " + y + ").", true, "function alias: T is bound to " + a.key + " and to " + b.key})
			}
			ng.stmts = append(ng.stmts, c15Stmt{text: "Die Variable " + cx.tmp() + " ist (" + x + " plus " + x + ").", what: "valid use of the overload"},
				c15Stmt{text: "Die Variable " + cx.tmp() + " ist (" + cx.fn("f") + " " + x + " " + x + ").", what: "valid call"})
			out = append(out, ng)
		}
	}
	// a body that names a variable of the calling module
	csv := &c15Fam{key: "callsitevar", nT: 1, entries: []c15Entry{{name: "f", params: c15P1, ret: c15RetT, args: "<a>", fwd: "a"}},
		generic: func(n int) string {
			return c15N(c15Fun("f{n}", c15P1, c15RetT, []string{"Schreibe nurhier{n} auf eine Zeile.", "Gib a zurück."}, "f{n} <a>")+
				c15Fun("g{n}", c15P1, c15RetT, []string{"Gib a zurück."}, "g{n} <a>"), n)
		}}
	for _, site := range []string{"importer", "importer-fn", "in-generic"} {
		for ti, t := range types {
			ng, cx := mk(csv, site)
			ng.key = "callsitevar:" + t.key + ":" + site + ":first"
			ng.tuple = t.key
			ng.kindIf = "differs-from-twin"
			v := fmt.Sprintf("nurhier%d", ng.n)
			// the name that exists only at the call site is a variable or (every second type) a Konstante
			vdecl := "Die Zahl " + v + " ist 5."
			if ti%2 == 1 {
				vdecl = "Die Konstante " + v + " ist 5."
				ng.key = "callsitevar:" + t.key + ":" + site + ":konstante:first"
			}
			if site == "importer-fn" {
				ng.stmts = append(ng.stmts, c15Stmt{text: vdecl, what: "local declaration of the calling function"})
			} else {
				ng.mDecl = vdecl + "\n"
			}
			w := "the body names the variable " + v + " which exists only at the call site (the specialised twin is rejected)"
			ng.stmts = append(ng.stmts, c15Stmt{cx.fn("f") + " " + t.vals[0] + ".", true, w},
				c15Stmt{fmt.Sprintf("g%d %s.", ng.n, t.vals[0]), false, "valid call of another generic function"},
				c15Stmt{cx.fn("f") + " " + t.vals[1] + ".", true, w + " — second call"})
			out = append(out, ng)
		}
	}
	return out
}

type c15NegFinding struct{ kind, what, sig string }
type c15NegResult struct {
	findings []c15NegFinding
	files    map[string]string
	expect   string
	diags    string
	infra    string
}

// c15NegProgram assembles one program for a batch of diagnostic cases of one site; returns the files and,
// per line of main.ddp, the statement it carries.
func c15NegProgram(b []*c15Neg) (files map[string]string, lineOf map[int]*c15Stmt, owner map[int]*c15Neg) {
	site := b[0].site
	var dDecl, iDecl, mDecl strings.Builder
	for _, ng := range b {
		dDecl.WriteString(ng.dDecl)
		iDecl.WriteString(ng.iDecl)
		mDecl.WriteString(ng.mDecl)
	}
	files = map[string]string{"typen.ddp": c15Typen, "a.ddp": c15ModA, "b.ddp": c15ModB(false)}
	head := c15ImportsAll
	if site == "decl-main" {
		head += "\n" + dDecl.String()
	} else {
		files["d.ddp"] = c15ImportsGenD + "\n" + dDecl.String()
		head += "Binde \"d\" ein.\n"
	}
	if site == "in-generic" {
		files["i.ddp"] = c15ImportsAll + "Binde \"d\" ein.\n\n" + iDecl.String()
		head += "Binde \"i\" ein.\n"
	}
	head += "\n" + mDecl.String()
	lines := strings.Split(strings.TrimRight(head, "\n"), "\n")
	lineOf, owner = map[int]*c15Stmt{}, map[int]*c15Neg{}
	for _, ng := range b {
		ind := ""
		if site == "importer-fn" {
			lines = append(lines, "", fmt.Sprintf("Die Funktion w%d gibt nichts zurück, macht:", ng.n))
			ind = "\t"
		}
		for i := range ng.stmts {
			lines = append(lines, ind+ng.stmts[i].text)
			lineOf[len(lines)] = &ng.stmts[i]
			owner[len(lines)] = ng
		}
		if site == "importer-fn" {
			lines = append(lines, "Und kann so benutzt werden:", fmt.Sprintf("\t\"w%d\"", ng.n), "")
		}
	}
	files["main.ddp"] = strings.Join(lines, "\n") + "\n"
	return
}

func c15CheckNeg(b []*c15Neg) (res c15NegResult) {
	files, lineOf, owner := c15NegProgram(b)
	res.files = files
	dir := rx.Scratch("c15n")
	defer os.RemoveAll(dir)
	rx.WriteFiles(dir, files)
	main := filepath.Join(dir, "main.ddp")
	var resp fe.Resp
	var st pool.Status
	for try := 0; try < 2; try++ {
		st, _ = rx.CompPool().Do(&fe.Req{Op: "parse", File: main}, &resp, 120*time.Second)
		if st != pool.Timeout {
			break
		}
	}
	if st == pool.Timeout {
		res.infra = "parse timeout twice"
		return
	}
	var exp []string
	for ln, s := range lineOf {
		if s.bad {
			exp = append(exp, fmt.Sprintf("main.ddp:%d", ln))
		}
	}
	sort.Strings(exp)
	res.expect = strings.Join(exp, "\n") + "\n"
	if st == pool.Died || resp.Panic != "" {
		res.diags = "frontend died / panicked: " + resp.Panic + " at " + resp.PanicSite
		res.findings = append(res.findings, c15NegFinding{"crash", "the frontend crashes on the program: " + resp.Panic + " at " + resp.PanicSite, "crash " + resp.PanicSite})
		return
	}
	errAt := map[int][]string{}
	var other []string
	for _, d := range resp.Diags {
		if d.Level != 2 {
			continue
		}
		res.diags += d.String() + "\n"
		if filepath.Base(d.File) == "main.ddp" {
			errAt[int(d.L1)] = append(errAt[int(d.L1)], d.Msg)
		} else {
			other = append(other, d.String())
		}
	}
	var lns []int
	for ln := range lineOf {
		lns = append(lns, ln)
	}
	sort.Ints(lns)
	for _, ln := range lns {
		s, ng := lineOf[ln], owner[ln]
		switch {
		case s.bad && len(errAt[ln]) == 0:
			res.findings = append(res.findings, c15NegFinding{ng.kindIf, fmt.Sprintf("main.ddp line %d `%s` is accepted without a diagnostic, but %s", ln, s.text, s.what), "accepted: " + s.what})
		case !s.bad && len(errAt[ln]) > 0:
			res.findings = append(res.findings, c15NegFinding{"generic-rejected-but-twin-accepted", fmt.Sprintf("main.ddp line %d `%s` (%s) is rejected: %s", ln, s.text, s.what, errAt[ln][0]), "rejected: " + s.what + " " + errAt[ln][0]})
		}
		delete(errAt, ln)
	}
	for ln, m := range errAt {
		res.findings = append(res.findings, c15NegFinding{"generic-rejected-but-twin-accepted", fmt.Sprintf("main.ddp line %d carries no call but is diagnosed: %s", ln, m[0]), "stray " + m[0]})
	}
	if len(other) > 0 {
		res.findings = append(res.findings, c15NegFinding{"generic-rejected-but-twin-accepted", "diagnostics in a module other than the calling one: " + other[0], "othermod " + other[0]})
	}
	sort.Slice(res.findings, func(i, j int) bool { return res.findings[i].what < res.findings[j].what })
	return
}

// ---------------------------------------------------------------------------------------------
// identity of instantiated generic Kombinationen

func c15IdentRows(types []*c15Ty) []*c15Ty { return types }

const c15IdentPack = `Die öffentliche generische Funktion packe mit dem Parameter a vom Typ T, gibt eine T-Box zurück, macht:
	Die T-Box b ist eine Box mit a.
	Gib b zurück.
Und kann so benutzt werden:
	"packe <a> ein"

`

func c15IdentHead(variant string) (files map[string]string, head string) {
	files = map[string]string{"a.ddp": c15ModA, "b.ddp": c15ModB(false)}
	if variant == "decl" {
		head = "Binde \"Duden/Ausgabe\" ein.\nBinde Ding, machA und zeigeA aus \"a\" ein.\nBinde machB und zeigeB aus \"b\" ein.\n\n" + c15Typen + "\n" + c15IdentPack
		for _, w := range []string{"öffentlichen ", "öffentliche ", "öffentlich "} { // everything is private to the one module
			head = strings.ReplaceAll(head, w, "")
		}
	} else {
		files["typen.ddp"] = c15Typen
		files["d.ddp"] = c15ImportsGenD + "\n" + c15IdentPack
		head = c15ImportsAll + "Binde \"d\" ein.\n\n"
	}
	return
}

// c15IdentRun: for every row type A (a Box of A built by the constructor and by a generic function), test
// `v eine B-Box ist` for all nameable B and assign to a B-Box variable where the arguments are equal.
func c15IdentRun(variant string, rows []*c15Ty, opt uint, checks *int64) []*c15Fail {
	types := c15Types()
	files, head := c15IdentHead(variant)
	var b, exp strings.Builder
	b.WriteString(head)
	for _, a := range rows {
		va, wa := "v"+a.key, "w"+a.key
		if a.declarable {
			fmt.Fprintf(&b, "Die %s-Box x%s ist eine Box mit %s.\nDie Variable %s ist x%s.\n", a.paramName(false), a.key, a.vals[0], va, a.key)
		} else {
			fmt.Fprintf(&b, "Die Variable %s ist (eine Box mit %s).\n", va, a.vals[0])
		}
		fmt.Fprintf(&b, "Die Variable %s ist (packe %s ein).\n", wa, a.vals[1])
		for _, t := range types {
			if !t.declarable {
				continue
			}
			same := a.canonKey() == t.canonKey()
			for _, v := range []string{va, wa} {
				fmt.Fprintf(&b, "Wenn %s eine %s-Box ist, Schreibe \"%s %s ja\" auf eine Zeile.\nSonst Schreibe \"%s %s nein\" auf eine Zeile.\n", v, t.paramName(false), v, t.key, v, t.key)
				fmt.Fprintf(&exp, "%s %s %s\n", v, t.key, map[bool]string{true: "ja", false: "nein"}[same])
				atomic.AddInt64(checks, 1)
			}
			if same && a.declarable {
				y := "y" + a.key + t.key
				fmt.Fprintf(&b, "Die %s-Box %s ist x%s.\nSpeichere (packe %s ein) in %s.\nSpeichere %s als %s-Box in %s.\n", t.paramName(false), y, a.key, a.vals[2], y, wa, t.paramName(false), y)
				for _, l := range t.show("(inhalt von "+y+")", "t"+y) {
					b.WriteString(l + "\n")
				}
				// expected output of show(vals[1]) is produced by the same statements on a plain variable: printed below
				atomic.AddInt64(checks, 1)
			}
		}
	}
	// the expected text of the show statements is obtained from a reference program WITHOUT any generic Kombination:
	// here we only compare the ja/nein lines (every other line must not start with v/w)
	files["main.ddp"] = b.String()
	o := c15BuildRun(files, opt)
	key := "box:" + c15TupleKey(rows) + ":" + variant + ":first"
	if len(rows) > 1 {
		key = "box:all:" + variant + ":first"
	}
	scope := "box"
	for _, r := range rows {
		if r.key == "DingB" { // the row tests a Box of b's Ding against the Box of a's Ding
			scope = "AB"
		}
	}
	mk := func(kind, what string) []*c15Fail {
		fl := map[string]string{"mode.txt": "expect", "opt.txt": fmt.Sprint(opt), "expected.txt": exp.String(), "output.txt": o.stdout + "\n--\n" + o.detail}
		for n, s := range files {
			fl["prog/"+n] = s
		}
		return []*c15Fail{{order: 1 << 25, key: key, kind: kind, what: fmt.Sprintf("-O%d: %s", opt, what), sig: c15Sig(kind, scope+"|box:"+c15TupleKey(rows), what+"\n"), files: fl}}
	}
	switch {
	case o.stage == "infra":
		return []*c15Fail{{kind: "infra", what: o.detail}}
	case o.stage == "rejected":
		return mk("struct-instance-identity", "a program that uses Box instances with equal type arguments interchangeably is rejected:\n"+o.detail)
	case o.stage != "":
		return mk("crash", "the program cannot be compiled ("+o.stage+"):\n"+o.detail)
	case o.class != "ok":
		return mk("crash", "the program ends with "+o.class+"\n"+o.detail)
	}
	var got strings.Builder
	for _, l := range strings.Split(o.stdout, "\n") {
		if strings.HasSuffix(l, " ja") || strings.HasSuffix(l, " nein") {
			got.WriteString(l + "\n")
		}
	}
	if got.String() != exp.String() {
		return mk("struct-instance-identity", "type tests on Box instances: expected (true exactly for equal type arguments)\n"+firstRunes(c15Diff(exp.String(), got.String()), 200)+"\ngot\n"+firstRunes(c15Diff(got.String(), exp.String()), 200))
	}
	return nil
}

// c15IdentNeg: assigning a Box of A to a variable of type B-Box must be rejected for different A, B (and only then)
func c15IdentNeg(variant string, types []*c15Ty, checks *int64) []*c15Fail {
	files, head := c15IdentHead(variant)
	lines := strings.Split(strings.TrimRight(head, "\n"), "\n")
	lines = append(lines, "")
	bad := map[int]string{}
	goodL := map[int]string{}
	for _, a := range types {
		if !a.declarable {
			continue
		}
		lines = append(lines, fmt.Sprintf("Die %s-Box x%s ist eine Box mit %s.", a.paramName(false), a.key, a.vals[0]))
		goodL[len(lines)] = a.key
		for _, t := range types {
			if !t.declarable {
				continue
			}
			lines = append(lines, fmt.Sprintf("Die %s-Box y%s%s ist x%s.", t.paramName(false), a.key, t.key, a.key))
			if a.canonKey() == t.canonKey() {
				goodL[len(lines)] = a.key + "+" + t.key
			} else {
				bad[len(lines)] = a.key + "+" + t.key
			}
			atomic.AddInt64(checks, 1)
		}
	}
	files["main.ddp"] = strings.Join(lines, "\n") + "\n"
	dir := rx.Scratch("c15i")
	defer os.RemoveAll(dir)
	rx.WriteFiles(dir, files)
	var resp fe.Resp
	st, _ := rx.CompPool().Do(&fe.Req{Op: "parse", File: filepath.Join(dir, "main.ddp")}, &resp, 300*time.Second)
	if st == pool.Timeout {
		return []*c15Fail{{kind: "infra", what: "parse timeout"}}
	}
	mk := func(kind, pair, what string) *c15Fail {
		fl := map[string]string{"mode.txt": "diag", "diagnostics.txt": ""}
		var exp []string
		for ln := range bad {
			exp = append(exp, fmt.Sprintf("main.ddp:%d", ln))
		}
		sort.Strings(exp)
		fl["expect_lines.txt"] = strings.Join(exp, "\n") + "\n"
		for n, s := range files {
			fl["prog/"+n] = s
		}
		return &c15Fail{order: 1<<25 + 1, key: "box:" + pair + ":" + variant + ":assign", kind: kind, what: what, sig: c15Sig(kind, "box|box:"+pair, "\n"+what), files: fl}
	}
	if st == pool.Died || resp.Panic != "" {
		return []*c15Fail{mk("crash", "all", "the frontend crashes: "+resp.Panic+" at "+resp.PanicSite)}
	}
	errAt := map[int]string{}
	for _, d := range resp.Diags {
		if d.Level == 2 && filepath.Base(d.File) == "main.ddp" {
			errAt[int(d.L1)] = d.Msg
		}
	}
	var out []*c15Fail
	var lns []int
	for ln := range bad {
		lns = append(lns, ln)
	}
	for ln := range goodL {
		lns = append(lns, ln)
	}
	sort.Ints(lns)
	for _, ln := range lns {
		if p, isBad := bad[ln]; isBad && errAt[ln] == "" {
			out = append(out, mk("struct-instance-identity", p, fmt.Sprintf("line %d `%s`: Box instances with different type arguments (%s) are assignable to each other", ln, lines[ln-1], p)))
		} else if p, isGood := goodL[ln]; isGood && errAt[ln] != "" {
			out = append(out, mk("struct-instance-identity", p, fmt.Sprintf("line %d `%s`: rejected although the type arguments are equal: %s", ln, lines[ln-1], errAt[ln])))
		}
	}
	return out
}

// ---------------------------------------------------------------------------------------------
// replay

func c15ReadTree(dir string) map[string]string {
	out := map[string]string{}
	filepath.Walk(dir, func(p string, info os.FileInfo, err error) error {
		if err == nil && !info.IsDir() {
			b, _ := os.ReadFile(p)
			rel, _ := filepath.Rel(dir, p)
			out[rel] = string(b)
		}
		return nil
	})
	return out
}

func replayC15(dir string) int {
	mode, _ := os.ReadFile(filepath.Join(dir, "mode.txt"))
	var opt uint = 1
	if b, err := os.ReadFile(filepath.Join(dir, "opt.txt")); err == nil {
		fmt.Sscan(string(b), &opt)
	}
	switch strings.TrimSpace(string(mode)) {
	case "twin":
		g := c15BuildRun(c15ReadTree(filepath.Join(dir, "generic")), opt)
		t := c15BuildRun(c15ReadTree(filepath.Join(dir, "twin")), opt)
		kind, what := c15Verdict(g, t)
		if kind != "" {
			fmt.Printf("VIOLATION property=C15 replay=%s\n  %s: %s\n", dir, kind, strings.ReplaceAll(what, "\n", "\n  "))
			return 1
		}
		fmt.Println("C15 replay: the generic program and its specialised twin behave alike")
		return 0
	case "diag":
		files := c15ReadTree(filepath.Join(dir, "prog"))
		d := rx.Scratch("c15r")
		defer os.RemoveAll(d)
		rx.WriteFiles(d, files)
		var resp fe.Resp
		st, _ := rx.CompPool().Do(&fe.Req{Op: "parse", File: filepath.Join(d, "main.ddp")}, &resp, 300*time.Second)
		if st != pool.OK || resp.Panic != "" {
			fmt.Printf("VIOLATION property=C15 replay=%s\n  the frontend crashed: %s %s\n", dir, st, resp.Panic)
			return 1
		}
		got := map[string]bool{}
		for _, x := range resp.Diags {
			if x.Level == 2 {
				got[fmt.Sprintf("%s:%d", filepath.Base(x.File), x.L1)] = true
			}
		}
		var gl []string
		for k := range got {
			gl = append(gl, k)
		}
		sort.Strings(gl)
		exp, _ := os.ReadFile(filepath.Join(dir, "expect_lines.txt"))
		if strings.TrimSpace(strings.Join(gl, "\n")) != strings.TrimSpace(string(exp)) {
			fmt.Printf("VIOLATION property=C15 replay=%s\n  lines with error diagnostics: %v\n  expected exactly: %s\n", dir, gl, strings.ReplaceAll(strings.TrimSpace(string(exp)), "\n", " "))
			return 1
		}
		fmt.Println("C15 replay: exactly the ill-typed statements are diagnosed")
		return 0
	case "expect":
		o := c15BuildRun(c15ReadTree(filepath.Join(dir, "prog")), opt)
		exp, _ := os.ReadFile(filepath.Join(dir, "expected.txt"))
		var got strings.Builder
		for _, l := range strings.Split(o.stdout, "\n") {
			if strings.HasSuffix(l, " ja") || strings.HasSuffix(l, " nein") {
				got.WriteString(l + "\n")
			}
		}
		if o.stage != "" || o.class != "ok" || got.String() != string(exp) {
			fmt.Printf("VIOLATION property=C15 replay=%s\n  stage=%s class=%s\n  %s\n  got: %s\n", dir, o.stage, o.class, o.detail, firstRunes(c15Diff(got.String(), string(exp)), 300))
			return 1
		}
		fmt.Println("C15 replay: Box instances are identical exactly for equal type arguments")
		return 0
	}
	fmt.Fprintln(os.Stderr, "C15 replay: no mode.txt in", dir)
	return 2
}

func init() { checks["C15"] = check{runC15, replayC15} }
