package main

// C17 generators, part 3: Duden/Zahlen, Statistik, Zeichen, Mathe; the generator entry point, bounds,
// assumptions and the list of functions that are left out.

import (
	"fmt"
	"math"
	"os"
	"regexp"
	"sort"
	"strconv"

	dm "ddpmc/internal/dudenmodel"
)

const konst = "(Konstanten)"

func sortedKeys[V any](m map[string]V) []string {
	var ks []string
	for k := range m {
		ks = append(ks, k)
	}
	sort.Strings(ks)
	return ks
}

func (g *c17gen) genZahlen(u *c17univ) {
	const M = "Zahlen"
	for _, n := range sortedKeys(dm.ZahlKonstanten) {
		g.expr(M, konst, n, n, vZ(dm.ZahlKonstanten[n]), nil, nil)
	}
	for _, n := range sortedKeys(dm.KommazahlKonstanten) {
		g.expr(M, konst, n, n, vK(dm.KommazahlKonstanten[n]), nil, nil)
	}
	for _, n := range dm.EinsAliase {
		g.expr(M, "Zahl_Eins", n, n, vZ(1), nil, nil)
	}
	// the documented value is read from the doc comment of the tree under test ("Gibt <n> zurück.")
	for _, f := range [][2]string{{"MaxZahl", "der maximale Wert einer Zahl"}, {"MinZahl", "der minimale Wert einer Zahl"}} {
		if m := regexp.MustCompile(`Gibt (-?\d+) zurück`).FindStringSubmatch(docComment(M, f[0])); m != nil {
			if z, err := strconv.ParseInt(m[1], 10, 64); err == nil {
				g.expr(M, f[0], "-", f[1], vZ(z), nil, nil)
				continue
			}
		}
		g.skip(M, f[0])
	}
	g.expr(M, "MaxKommazahl", "-", "der maximale Wert einer Kommazahl", vK(dm.MaxKommazahl()), nil, nil)
	g.expr(M, "MinKommazahl", "-", "der minimale Wert einer Kommazahl", vK(-dm.MaxKommazahl()), nil, nil)
	g.expr(M, "EpsilonPos", "-", "der kleinste positive Wert einer Kommazahl", vK(dm.EpsilonPos()), nil, nil)
	g.expr(M, "EpsilonNeg", "-", "der kleinste negative Wert einer Kommazahl", vK(-dm.EpsilonPos()), nil, nil)
	for n := int64(-2); n <= 13; n++ {
		cl := map[bool]string{true: "n<0", false: "n>=0"}[n < 0]
		g.expr(M, "Zahl_Million", cl, "$0 Million", vZ(n*1000000), []arg{A(vZ(n))}, nil)
		g.expr(M, "Zahl_Duzent", cl, "$0 Dutzend", vZ(n*12), []arg{A(vZ(n))}, nil)
		for _, b := range sortedKeys(dm.Brueche) {
			g.expr(M, "Zahl_Bruch_"+b, cl, "$0 "+b, vK(dm.Bruch(n, dm.Brueche[b])), []arg{A(vZ(n))}, nil)
		}
	}
	// hexadecimal
	hexA := []rune{'0', '1', '9', 'a', 'f', 'A', 'F', 'c'}
	for _, h := range strs(hexA, map[bool]int{false: 2, true: 3}[u.tier == "thorough"]) {
		if r, d := dm.HexZuZahl(h); d == dm.Def {
			g.expr(M, "Hex_Zu_Zahl", fmt.Sprintf("%d-Ziffern", len(h)), "die Hexadezimalzahl $0", vZ(r), []arg{A(vT(h))}, nil)
		} else {
			g.skip(M, "Hex_Zu_Zahl")
		}
	}
	for _, h := range []string{"7fffffffffffffff", "123456789abcdef", "DEADBEEF", "00ff"} {
		if r, d := dm.HexZuZahl(h); d == dm.Def {
			g.expr(M, "Hex_Zu_Zahl", "lang", "die Hexadezimalzahl $0", vZ(r), []arg{A(vT(h))}, nil)
		} else {
			g.skip(M, "Hex_Zu_Zahl")
		}
	}
	nums := []int64{}
	for z := int64(-20); z <= 300; z++ {
		nums = append(nums, z)
	}
	nums = append(nums, 4095, 4096, 65535, 65536, 1<<31, 1<<32-1, -(1 << 40), math.MaxInt64, -math.MaxInt64)
	for _, z := range nums {
		r, _ := dm.ZahlZuHex(z)
		cl := map[bool]string{true: "negativ", false: map[bool]string{true: "null", false: "positiv"}[z == 0]}[z < 0]
		g.expr(M, "Zahl_Zu_Hex", cl, "$0 in Hexadezimal", vT(r), []arg{A(vZ(z))}, nil)
	}
}

func (g *c17gen) genStatistik(u *c17univ) {
	const M = "Statistik"
	n := map[bool]int{false: 3, true: 4}[u.tier == "thorough"]
	for _, l := range seqs([]el{eZ(1), eZ(2), eZ(-1), eZ(0)}, n) {
		if h, d := dm.Hoechste(zs(l)); d == dm.Def {
			k, _ := dm.Kleinste(zs(l))
			cl := map[bool]string{true: "alle-negativ", false: "gemischt"}[h < 0]
			g.expr(M, "Höchste_ListeZ", cl, "der höchste Wert aus $0", vZ(h), []arg{A(vL(kZ, l))}, nil)
			g.expr(M, "Kleinste_ListeZ", cl, "der kleinste Wert aus $0", vZ(k), []arg{A(vL(kZ, l))}, nil)
		} else {
			g.skip(M, "Höchste_ListeZ")
			g.skip(M, "Kleinste_ListeZ")
		}
	}
	vals := []el{eK(0.5), eK(2), eK(-1.5), eK(2.25)}
	for _, l := range seqs(vals, n) {
		f := ks(l)
		lc := lenClass(len(l))
		a := []arg{A(vL(kK, l))}
		if h, d := dm.Hoechste(f); d == dm.Def {
			k, _ := dm.Kleinste(f)
			cl := map[bool]string{true: "alle-negativ", false: "gemischt"}[h < 0]
			g.expr(M, "Höchste_ListeK", cl, "der höchste Wert aus $0", vK(h), a, nil)
			g.expr(M, "Kleinste_ListeK", cl, "der kleinste Wert aus $0", vK(k), a, nil)
			sp, _ := dm.Spannweite(f)
			g.expr(M, "Spannweite", cl, "die Spannweite von $0", vK(sp), a, nil)
			mw, _ := dm.Mittelwert(f)
			g.expr(M, "Mittelwert", lc, "der Mittelwert von $0", vK(mw), a, nil)
		} else {
			for _, fn := range []string{"Höchste_ListeK", "Kleinste_ListeK", "Spannweite", "Mittelwert"} {
				g.skip(M, fn)
			}
		}
		g.expr(M, "Summe", lc, "die Summe aller zahlen aus $0", vK(dm.SummeListe(f)), a, nil)
		if md, d := dm.Median(f); d == dm.Def {
			g.expr(M, "Median", map[bool]string{true: "gerade-Länge", false: "ungerade-Länge"}[len(l)%2 == 0], "der Median von $0", vK(md), a, nil)
		} else {
			g.skip(M, "Median")
		}
		mo := dm.Modalwert(f)
		g.expr(M, "Modalwert", lc+fmt.Sprintf(",%d-Modalwerte", min(len(mo), 2)), "der Modalwert von $0", vLK(mo), a, nil)
		for _, x := range vals[:3] {
			xa := []arg{A(vL(kK, l)), A(vS(x))}
			g.expr(M, "Absolute_Häufigkeit", lc, "die absolute Häufigkeit von $1 in $0", vZ(dm.AbsoluteHaeufigkeit(f, x.f)), xa, nil)
			if r, d := dm.RelativeHaeufigkeit(f, x.f); d == dm.Def {
				g.expr(M, "Relative_Häufigkeit", lc, "die relative Häufigkeit von $1 in $0", vK(r), xa, nil)
			} else {
				g.skip(M, "Relative_Häufigkeit")
			}
			for _, y := range vals[:3] {
				if r, d := dm.ZwischenListe(x.f, y.f, f); d == dm.Def && len(l) <= 3 {
					g.expr(M, "Zwischen_Liste", map[bool]string{true: "x=y", false: "x<y"}[x == y], "wie viel Prozent der Zahlen aus $2 zwischen $0 und $1 sind", vK(r), []arg{A(vS(x)), A(vS(y)), A(vL(kK, l))}, nil)
				} else if d != dm.Def {
					g.skip(M, "Zwischen_Liste")
				}
			}
		}
	}
	// the documented Laufzeitfehler for lists of different length
	for _, p := range [][2][]float64{{{}, {0.5}}, {{0.5}, {}}, {{0.5, 2}, {2}}, {{2, 0.5, -1.5}, {0.5, 2}}} {
		a := []arg{A(vLK(p[0])), A(vLK(p[1]))}
		g.exprFehler(M, "Kovarianz", "ungleiche-Längen", "die empirische Kovarianz von $0 und $1", vK(0), a)
		g.exprFehler(M, "Korrelationskoeffizient", "ungleiche-Längen", "der empirische Korrelationskoeffizient von $0 und $1", vK(0), a)
		g.exprFehler(M, "Bestimmtheitsmaß", "ungleiche-Längen", "der Bestimmtheitsmaß von $0 und $1", vK(0), a)
	}
}

func charClass(c rune) string {
	switch {
	case c < 32:
		return "Kontrollzeichen"
	case c < 128 && dm.IstLateinisch(c):
		return "ASCII-Buchstabe"
	case c < 128 && dm.IstZiffer(c):
		return "Ziffer"
	case c < 128:
		return "ASCII-Zeichen"
	case dm.IstDeutsch(c):
		return "Umlaut/ß"
	case c < 256:
		return "Latin-1"
	}
	return "mehrbyte"
}

func (g *c17gen) genZeichen(u *c17univ) {
	const M = "Zeichen"
	for _, z := range []struct {
		fn, alias string
		c         rune
	}{{"Leerzeichen", "ein Leerzeichen", ' '}, {"Neue_Zeile", "eine neue Zeile", '\n'}, {"Wagenrücklauf", "ein Wagenrücklauf", '\r'}, {"Tabulator", "ein Tabulator", '\t'},
		{"Rückstrich", "ein Rückstrich", '\\'}, {"Anführungszeichen", "ein Anfühungszeichen", '"'}, {"Apostroph", "ein Apostroph", '\''}} {
		g.expr(M, z.fn, "-", z.alias, vC(z.c), nil, nil)
	}
	var chars []rune
	for c := rune(1); c < 256; c++ {
		chars = append(chars, c)
	}
	chars = append(chars, '€', 0x1F600, 'α', 'Ω', 'ẞ')
	for _, c := range chars {
		a := []arg{A(vC(c))}
		cl := charClass(c)
		g.expr(M, "Ist_Leer", cl, "$0 ein leeres Zeichen ist", vW(dm.IstLeerZeichen(c)), a, nil)
		if r, d := dm.IstGross(c); d == dm.Def {
			g.expr(M, "Ist_Groß", cl, "$0 ein großer Buchstabe ist", vW(r), a, nil)
			r2, _ := dm.IstKlein(c)
			g.expr(M, "Ist_Klein", cl, "$0 ein kleiner Buchstabe ist", vW(r2), a, nil)
		} else {
			g.skip(M, "Ist_Groß")
			g.skip(M, "Ist_Klein")
		}
		g.expr(M, "Ist_Leerzeichen", cl, "$0 ein Leerzeichen ist", vW(dm.IstLeerzeichen(c)), a, nil)
		g.expr(M, "Buchstabe_Ist_Ziffer", cl, "$0 eine Ziffer ist", vW(dm.IstZiffer(c)), a, nil)
		g.expr(M, "Ist_Kontroll", cl, "$0 ein Kontrollzeichen ist", vW(dm.IstKontroll(c)), a, nil)
		g.expr(M, "Ist_Lateinischer_Buchstabe", cl, "$0 ein lateinischer Buchstabe ist", vW(dm.IstLateinisch(c)), a, nil)
		g.expr(M, "Ist_Lateinischer_Buchstabe_Oder_Zahl", cl, "$0 ein lateinischer Buchstabe oder eine Zahl ist", vW(dm.IstLateinischOderZahl(c)), a, nil)
		g.expr(M, "Ist_Deutscher_Buchstabe", cl, "$0 ein deutscher Buchstabe ist", vW(dm.IstDeutsch(c)), a, nil)
		g.expr(M, "Ist_Deutscher_Buchstabe_Oder_Zahl", cl, "$0 ein deutscher Buchstabe oder eine Zahl ist", vW(dm.IstDeutschOderZahl(c)), a, nil)
		if r, d := dm.Grossgeschrieben(c); d == dm.Def {
			g.expr(M, "Großgeschrieben", cl, "$0 als großer Buchstabe", vC(r), a, nil)
		} else {
			g.skip(M, "Großgeschrieben")
		}
		r, _ := dm.Kleingeschrieben(c)
		g.expr(M, "Kleingeschrieben", cl, "$0 als kleiner Buchstabe", vC(r), a, nil)
		if c < 128 {
			g.expr(M, "ASCII_Zeichen", cl, "der ASCII Zeichen mit der Nummer $0", vC(c), []arg{A(vZ(int64(c)))}, nil)
		}
	}
	cmp := []rune{1, 'A', 'a', 'z', 127, 'ä', '€', 0x1F600}
	for _, a := range cmp {
		for _, b := range cmp {
			cl := map[bool]string{true: "gleich", false: map[bool]string{true: "größer", false: "kleiner"}[a > b]}[a == b]
			g.expr(M, "ASCII_Größer", cl, "der ASCII-Wert von $0 größer als $1", vW(a > b), []arg{A(vC(a)), A(vC(b))}, nil)
			g.expr(M, "ASCII_Kleiner", cl, "der ASCII-Wert von $0 kleiner als $1", vW(a < b), []arg{A(vC(a)), A(vC(b))}, nil)
		}
	}
}

func kClass(f float64) string {
	s := "positiv"
	if f < 0 {
		s = "negativ"
	} else if f == 0 {
		s = "null"
	}
	if f == math.Trunc(f) {
		return s + ",ganzzahlig"
	}
	return s + ",gebrochen"
}

func (g *c17gen) genMathe(u *c17univ) {
	const M = "Mathe"
	thorough := u.tier == "thorough"
	for _, k := range []struct {
		n string
		v float64
	}{{"PI", dm.PI}, {"E", dm.E}, {"TAU", dm.TAU}, {"PHI", dm.PHI}} {
		g.expr(M, konst, k.n, k.n, vK(k.v), nil, nil)
	}
	zv := []int64{-2, -1, 0, 1, 3}
	kv := []float64{-1.5, -0.5, 0, 0.5, 2.25}
	ord := func(a, b, c float64) string {
		switch {
		case a == b && b == c:
			return "alle-gleich"
		case a == b || b == c || a == c:
			return "zwei-gleich"
		}
		return "verschieden"
	}
	for i, a := range zv {
		fa := kv[i]
		g.expr(M, "Sign", kClass(float64(a)), "das Vorzeichen von $0", vZ(dm.Sign(a)), []arg{A(vZ(a))}, nil)
		g.expr(M, "Sign_Kommazahl", kClass(fa), "das Vorzeichen von $0", vZ(dm.Sign(fa)), []arg{A(vK(fa))}, nil)
		for j, b := range zv {
			fb := kv[j]
			c2 := "a=b"
			if a != b {
				c2 = map[bool]string{true: "a<b", false: "a>b"}[a < b]
			}
			g.expr(M, "Max", c2, "die größere Zahl von $0 und $1", vZ(dm.Max(a, b)), []arg{A(vZ(a)), A(vZ(b))}, nil)
			g.expr(M, "Min", c2, "die kleinere Zahl von $0 und $1", vZ(dm.Min(a, b)), []arg{A(vZ(a)), A(vZ(b))}, nil)
			g.expr(M, "Max_Kommazahl", c2, "die größere Zahl von $0 und $1", vK(dm.Max(fa, fb)), []arg{A(vK(fa)), A(vK(fb))}, nil)
			g.expr(M, "Min_Kommazahl", c2, "die kleinere Zahl von $0 und $1", vK(dm.Min(fa, fb)), []arg{A(vK(fa)), A(vK(fb))}, nil)
			for l, c := range zv {
				fc := kv[l]
				c3 := ord(float64(a), float64(b), float64(c))
				g.expr(M, "Max3", c3, "die größere Zahl von $0, $1 und $2", vZ(dm.Max3(a, b, c)), []arg{A(vZ(a)), A(vZ(b)), A(vZ(c))}, nil)
				g.expr(M, "Min3", c3, "die kleinere Zahl von $0, $1 und $2", vZ(dm.Min3(a, b, c)), []arg{A(vZ(a)), A(vZ(b)), A(vZ(c))}, nil)
				g.expr(M, "Max3_Kommazahl", c3, "die größere Zahl von $0, $1 und $2", vK(dm.Max3(fa, fb, fc)), []arg{A(vK(fa)), A(vK(fb)), A(vK(fc))}, nil)
				g.expr(M, "Min3_Kommazahl", c3, "die kleinere Zahl von $0, $1 und $2", vK(dm.Min3(fa, fb, fc)), []arg{A(vK(fa)), A(vK(fb)), A(vK(fc))}, nil)
				// Clamp(wert=a, max=b, min=c)
				if r, d := dm.Clamp(a, b, c); d == dm.Def {
					cc := "wert-innen"
					if a > b {
						cc = "wert>max"
					} else if a < c {
						cc = "wert<min"
					}
					g.expr(M, "Clamp", cc, "$0 zwischen $2 und $1", vZ(r), []arg{A(vZ(a)), A(vZ(b)), A(vZ(c))}, nil)
					rk, _ := dm.Clamp(fa, fb, fc)
					g.expr(M, "Clamp_Kommazahl", cc, "$0 zwischen $2 und $1", vK(rk), []arg{A(vK(fa)), A(vK(fb)), A(vK(fc))}, nil)
				} else {
					g.skip(M, "Clamp")
					g.skip(M, "Clamp_Kommazahl")
				}
			}
		}
	}
	// rounding
	for _, w := range []float64{-2, -1.5, -1.25, -0.5, 0, 0.25, 0.5, 1, 1.5, 1.75, 2, 2.5, 7.0625, 100, -100.5} {
		a := []arg{A(vK(w))}
		g.expr(M, "Floor", kClass(w), "$0 nach unten gerundet", vK(dm.Floor(w)), a, nil)
		if w < 0 && w > -1 { // the result is zero; whether it carries the sign of the argument (printed "-0") is not specified
			g.skip(M, "Ceil")
			g.skip(M, "Trunc")
		} else {
			g.expr(M, "Ceil", kClass(w), "$0 nach oben gerundet", vK(dm.Ceil(w)), a, nil)
			g.expr(M, "Trunc", kClass(w), "$0 trunkiert", vK(dm.Trunc(w)), a, nil)
		}
		g.expr(M, "Ganze_Zahl", kClass(w), "$0 eine ganze Zahl ist", vW(dm.GanzeZahl(w)), a, nil)
		g.expr(M, "Gerade_Kommazahl", kClass(w), "$0 eine gerade Zahl ist", vW(dm.GeradeKommazahl(w)), a, nil)
		g.expr(M, "Quadriere_Wert", kClass(w), "$0 zum quadrat", vK(w*w), a, nil)
		g.stmt(M, "Quadriere", kClass(w), "Quadriere $0", a, map[int]val{0: vK(w * w)}, false)
		g.expr(M, "Bogenmaß_Zu_Grad", kClass(w), "$0 in Grad", vK(dm.BogenmassZuGrad(w)), a, nil)
		g.expr(M, "Grad_Zu_Bogenmaß", kClass(w), "$0 in Bogenmaß", vK(dm.GradZuBogenmass(w)), a, nil)
	}
	for _, w := range []float64{0.1234, 0.1236, 0.2, 0.5, 0.7, 0.9999999, 1.5, 2.5, 2.625, -1.3, -0.126, 12, 1234.5678, 0} {
		for _, n := range []int64{0, 1, 2, 3, 5, 9, 10, 12} {
			if r, d := dm.Runden(w, n); d == dm.Def && !(r == 0 && w < 0) { // sign of a zero result: not specified
				cl := fmt.Sprintf("n=%d", n)
				if n >= 10 {
					cl = "n>=10"
				} else if n >= 4 {
					cl = "n=4..9"
				}
				g.expr(M, "Runden", cl+","+map[bool]string{true: "negativ", false: "nicht-negativ"}[w < 0], "$0 auf $1 Stellen gerundet", vK(r), []arg{A(vK(w)), A(vZ(n))}, nil)
			} else {
				g.skip(M, "Runden")
			}
		}
	}
	for w := int64(-3); w <= 12; w++ {
		g.expr(M, "Grad_Zu_Bogenmaß_Zahl", kClass(float64(w*30)), "$0 in Bogenmaß", vK(dm.GradZuBogenmass(float64(w*30))), []arg{A(vZ(w * 30))}, nil)
		g.expr(M, "Gerade_Zahl", kClass(float64(w)), "$0 eine gerade Zahl ist", vW(dm.GeradeZahl(w)), []arg{A(vZ(w))}, nil)
	}
	// number theory
	lim := int64(12)
	if thorough {
		lim = 30
	}
	for a := int64(-3); a <= lim; a++ {
		for b := int64(-3); b <= lim; b++ {
			args := []arg{A(vZ(a)), A(vZ(b))}
			if r, d := dm.GGT(a, b); d == dm.Def {
				cl := "a,b>0"
				if a == 0 || b == 0 {
					cl = "ein-Argument-0"
				} else if r == 1 {
					cl = "teilerfremd"
				}
				g.expr(M, "Größter_Gemeinsamer_Teiler", cl, "der größte gemeinsame Teiler von $0 und $1", vZ(r), args, nil)
			} else {
				g.skip(M, "Größter_Gemeinsamer_Teiler")
			}
			if r, d := dm.KGV(a, b); d == dm.Def {
				g.expr(M, "Kleinster_Gemeinsamer_Teiler", map[bool]string{true: "a=b", false: "a≠b"}[a == b], "das kleinste gemeinsame Vielfache von $0 und $1", vZ(r), args, nil)
			} else {
				g.skip(M, "Kleinster_Gemeinsamer_Teiler")
			}
			if r, d := dm.IstTeilbar(a, b); d == dm.Def {
				cl := map[bool]string{true: "teilbar", false: "nicht-teilbar"}[r]
				if a < 0 || b < 0 {
					cl += ",negativ"
				}
				g.expr(M, "Ist_Teilbar", cl, "$0 durch $1 teilbar ist", vW(r), args, nil)
			} else {
				g.skip(M, "Ist_Teilbar")
			}
		}
	}
	zmax := int64(130)
	if thorough {
		zmax = 1100
	}
	for z := int64(-1); z <= zmax; z++ {
		if r, d := dm.Primfaktoren(z); d == dm.Def {
			cl := "zusammengesetzt"
			switch {
			case len(r) == 1:
				cl = "Primzahl"
			case r[0] == r[len(r)-1]:
				cl = "Primzahlpotenz"
			}
			g.expr(M, "Primfaktorzerlegung", cl, "die Primfaktoren von $0", vLZ(r), []arg{A(vZ(z))}, nil)
		} else {
			g.skip(M, "Primfaktorzerlegung")
		}
		if r, d := dm.Teiler(z); d == dm.Def && z <= 130 {
			g.expr(M, "Teilerzerlegung", map[bool]string{true: "z=1", false: "z>1"}[z == 1], "alle Teiler von $0", vLZ(r), []arg{A(vZ(z))}, nil)
		} else if d != dm.Def {
			g.skip(M, "Teilerzerlegung")
		}
	}
	for x := int64(-2); x <= 21; x++ {
		if r, d := dm.Fakultaet(x); d == dm.Def {
			g.expr(M, "Fakultät", map[bool]string{true: "x<=1", false: "x>1"}[x <= 1], "$0 Fakultät", vZ(r), []arg{A(vZ(x))}, nil)
		} else {
			g.skip(M, "Fakultät")
		}
	}
}

func c17Generate(tier string) *c17gen {
	g := &c17gen{excluded: map[string]int64{}, perFn: map[string]int{}}
	u := newUniv(tier)
	g.genListen(u)
	g.genSortierung(u)
	g.genTexte(u)
	g.genZahlen(u)
	g.genStatistik(u)
	g.genZeichen(u)
	g.genMathe(u)
	// debugging aid: C17_ONLY=<regexp over "Module.Function"> restricts the run (never set by ./run or the self-test)
	if re := os.Getenv("C17_ONLY"); re != "" {
		rx := regexp.MustCompile(re)
		all := g.calls
		g.calls, g.perFn, g.order = nil, map[string]int{}, nil
		for _, c := range all {
			if rx.MatchString(c.mod + "." + c.fn) {
				g.add(c)
			}
		}
	}
	return g
}

func c17Bounds(tier string) map[string]any {
	u := newUniv(tier)
	return map[string]any{
		"list_alphabets":      map[string]string{"Zahl": "1, 2, -1", "Kommazahl": "0,5 2 -1,5", "Wahrheitswert": "wahr falsch", "Buchstabe": "a ä 😀", "Text": `"" "a" "ä€"`, "Byte": "0 65 200"},
		"list_max_len":        map[string]int{"Zahl": u.maxLen[kZ], "Kommazahl": u.maxLen[kK], "Wahrheitswert": u.maxLen[kW], "Buchstabe": u.maxLen[kC], "Text": u.maxLen[kT]},
		"second_list_max_len": 2,
		"indices":             "-1 .. Länge+2 (outside the documented domain only where a Laufzeitfehler or a clamp is documented)",
		"texts":               map[string]string{"quick": "length 0..3 over {a,b,ä,😀,space}; with an index: {a,ä,😀}; two texts: {a,b,ä}^0..3 ∪ {a,b}^4 × needles {a,b,ä}^0..2", "thorough": "length 0..4 over {a,b,ä,😀,space}; with an index / two texts: {a,b,ä,😀}^0..4 × needles {a,b,ä}^0..2"}[tier],
		"sorting":             map[string]string{"quick": "Zahlen: {1,2,3,-1}^0..5 + all distinct permutations of 1..6 and of 1,2,2,3,3,3,4; Kommazahlen/Byte: ^0..4 (the built-in order exists for Zahl, Kommazahl and Byte only)", "thorough": "Zahlen: ^0..6 + permutations of 1..7 and 1,1,2,2,3,3,4,4; others ^0..5"}[tier],
		"characters":          "code points 1..255 and € 😀 α Ω ẞ",
		"calls_per_program":   120,
		"opt_level":           1,
	}
}

var c17Assumptions = []string{
	"A1 Index_Von_Element: 'den Index des gegebenen Wertes' is the first index when the value occurs more than once",
	"A2 Letzten_N_Elemente_Liste: the alias 'die letzten <n> Elemente' and the upstream golden are taken; the formula in the doc comment ('ab dem (Länge minus n). Element') is off by one against both",
	"A3 a golden-pinned convention is used only where it does not contradict the mathematical reading: Spalte_Text with an empty separator yields the letters, Text_Index_Von_Text of an empty Text in a non-empty one is 1, Zwischen_Liste includes both bounds, Modalwert and Teilerzerlegung keep the order of the golden, Zahl_Zu_Hex prints upper-case digits; empty needles of Text_Enthält_Text / Text_Anzahl_Text* / Beginnt_/Endet_Mit_Text are excluded (golden and mathematical reading differ)",
	"A4 Kommazahlen are printed with %.16g and a decimal comma; all Kommazahl arguments are dyadic rationals so that sums and products are exact in any order",
	"A5 functions without a doc comment (Hex_Zu_Zahl, Zahl_Zu_Hex, Text_Zu_ByteListe, ByteListe_Zu_Text, Text_Worte, the Zeichen and Zahlen constants) are specified by their name, their alias and the upstream golden",
	"A6 which overload (value / Referenz) an alias call selects follows sortAliases in src/parser/alias.go: variables select the Referenz variant, temporaries the value variant",
	"A7 case predicates are determined for code points 1..255 except ª µ º and for non-letters; Großgeschrieben of ß is excluded",
}

var c17LeftOut = map[string]string{
	"Listen.Linspace, Listen.Logspace":                               "doc comment contradicts itself (examples do not fit the parameters; '{NaN}' for anzahl < 2); Logspace needs libm pow",
	"Statistik.Mindestens_Liste, Statistik.Höchstens_Liste":          "doc comment ('größer als, oder x' for Mindestens) and upstream golden (counts z <= x) contradict each other",
	"Statistik.Quantil, Statistik.Interquartilabstand":               "quantile convention not fixed by the doc comment",
	"Statistik.Varianz, Standardabweichung":                          "population or sample variance not fixed by the doc comment; floating point summation order",
	"Statistik.Kovarianz, Korrelationskoeffizient, Bestimmtheitsmaß": "only the documented Laufzeitfehler for lists of different length is covered; the value depends on summation order",
	"Mathe: trigonometric, hyperbolic, logarithm, erf, Winkel":       "results depend on libm to the last digit; the doc comment gives no tolerance",
	"Mathe.Kehrwert_Zahl, Kehrwert_Kommazahl":                        "not public",
	"Zahlen.Unendlich, Minus_Unendlich, KeineZahl":                   "printed form of inf/nan is not documented",
	"Texte: regex-free but stateful TextIterator/TextBauer modules, Duden/Regex, Komprimierung, Dateisystem, Zeit, Zufall, Netzwerk": "need regex/compression/files/time/randomness or are not pure functions",
}
