package main

import (
	"fmt"
	"os"

	"ddpmc/internal/fe"
	"ddpmc/internal/pool"
)

var workers = map[string]func(args []string){}

func workerMain(args []string) {
	if len(args) == 0 {
		os.Exit(2)
	}
	if f, ok := workers[args[0]]; ok {
		f(args[1:])
		return
	}
	fmt.Fprintln(os.Stderr, "unknown worker", args[0])
	os.Exit(2)
}

func init() {
	workers["fe"] = func([]string) { pool.Serve(func(q *fe.Req) fe.Resp { return fe.Handle(q) }) }
}
