package main

// Minimiser for C03/C07 witnesses: `VERIF_MINIMIZE=<key> ./run C03 replay <dir>` shrinks the main file
// of a replay directory (ddmin over lines, then over tokens, then over characters of what is left)
// while the real frontend still produces the violation key; writes <dir>/minimized.ddp.

import (
	"fmt"
	"os"
	"path/filepath"
	"strings"
	"sync"

	fs "ddpmc/internal/frontspace"
	"ddpmc/internal/par"
)

func minimizeReplay(dir, key string, keysOf func(cs *fs.Case, o *fs.Outcome) map[string]string) int {
	cs, cleanup, err := fs.LoadReplay(dir)
	if err != nil {
		fmt.Println(err)
		return 2
	}
	defer cleanup()
	x := fs.NewExecutor()
	defer fs.BatchPool().Close()
	test := func(src []byte) bool {
		c := *cs
		c.Source = src
		o := x.Exec(&c)
		_, ok := keysOf(&c, o)[key]
		return ok
	}
	if !test(cs.Source) {
		fmt.Println("the replay does not produce", key)
		return 2
	}
	// ddmin over pieces; all candidates of one round are tried in parallel, the first (lowest index) success wins
	ddmin := func(pieces []string, join string) []string {
		n := 2
		for len(pieces) >= 2 {
			chunk := (len(pieces) + n - 1) / n
			type cand struct{ lo, hi int }
			var cands []cand
			for lo := 0; lo < len(pieces); lo += chunk {
				hi := lo + chunk
				if hi > len(pieces) {
					hi = len(pieces)
				}
				cands = append(cands, cand{lo, hi})
			}
			res := make([]bool, len(cands))
			var mu sync.Mutex
			par.Each(cands, 0, func(i int, c cand) {
				rest := append(append([]string{}, pieces[:c.lo]...), pieces[c.hi:]...)
				ok := test([]byte(strings.Join(rest, join)))
				mu.Lock()
				res[i] = ok
				mu.Unlock()
			})
			reduced := false
			for i, ok := range res {
				if ok {
					c := cands[i]
					pieces = append(append([]string{}, pieces[:c.lo]...), pieces[c.hi:]...)
					if n > 2 {
						n--
					}
					reduced = true
					break
				}
			}
			if !reduced {
				if chunk == 1 {
					break
				}
				n *= 2
				if n > len(pieces) {
					n = len(pieces)
				}
			}
		}
		return pieces
	}
	src := string(cs.Source)
	lines := ddmin(strings.SplitAfter(src, "\n"), "")
	src = strings.Join(lines, "")
	fmt.Printf("after line minimisation: %d bytes\n", len(src))
	// tokens
	for round := 0; round < 3; round++ {
		spans, ok := fs.Tokenize([]byte(src))
		if !ok || len(spans) < 2 {
			break
		}
		// pieces = token with its leading whitespace
		var pieces []string
		prev := 0
		for _, sp := range spans {
			pieces = append(pieces, src[prev:sp.E])
			prev = sp.E
		}
		tail := src[prev:]
		before := len(src)
		pieces = ddmin(pieces, "")
		src = strings.Join(pieces, "") + tail
		if !test([]byte(src)) {
			break
		}
		if len(src) == before {
			break
		}
	}
	fmt.Printf("after token minimisation: %d bytes\n", len(src))
	os.WriteFile(filepath.Join(dir, "minimized.ddp"), []byte(src), 0o644)
	fmt.Println("----- minimized main file (" + cs.MainRel + ") -----")
	fmt.Println(src)
	fmt.Println("-----")
	return 0
}
