package main

// Hand-written C04 seeds for what cdm does not model: modules with public/private declarations,
// constants, type aliases / definitions, Kombinationen of every gender, forward declarations,
// single-statement loop forms. A site is marked in the text as
//     {{class;site kind;detail|well-formed text|ill-formed text 1|ill-formed text 2…}}
// The seed takes the first alternative everywhere; every injected program takes one ill-formed
// alternative at exactly one marker.

import (
	"fmt"
	"strings"

	"ddpmc/internal/faults"
)

type c04Marker struct {
	file                string
	class, kind, detail string
	alts                []string
}

type c04Piece struct {
	text   string
	marker int // -1 = plain text
}

func c04ParseTemplate(file, tpl string, markers *[]c04Marker) []c04Piece {
	var out []c04Piece
	for {
		i := strings.Index(tpl, "{{")
		if i < 0 {
			out = append(out, c04Piece{tpl, -1})
			return out
		}
		j := strings.Index(tpl[i:], "}}")
		if j < 0 {
			panic("unterminated marker in " + file)
		}
		out = append(out, c04Piece{tpl[:i], -1})
		body := tpl[i+2 : i+j]
		tpl = tpl[i+j+2:]
		parts := strings.Split(body, "|")
		head := strings.Split(parts[0], ";")
		if len(head) != 3 || len(parts) < 3 {
			panic("bad marker {{" + body + "}} in " + file)
		}
		*markers = append(*markers, c04Marker{file: file, class: head[0], kind: head[1], detail: head[2], alts: parts[1:]})
		out = append(out, c04Piece{"", len(*markers) - 1})
	}
}

func c04TextSeed(name string, tpls map[string]string) *c04Seed {
	var markers []c04Marker
	pieces := map[string][]c04Piece{}
	var names []string
	for f := range tpls {
		names = append(names, f)
	}
	// deterministic marker numbering: main.ddp last
	for i := range names {
		for j := i + 1; j < len(names); j++ {
			if names[j] < names[i] {
				names[i], names[j] = names[j], names[i]
			}
		}
	}
	for _, f := range names {
		pieces[f] = c04ParseTemplate(f, tpls[f], &markers)
	}
	render := func(m, alt int) map[string]string {
		files := map[string]string{}
		for _, f := range names {
			var sb strings.Builder
			for _, p := range pieces[f] {
				switch {
				case p.marker < 0:
					sb.WriteString(p.text)
				case p.marker == m:
					sb.WriteString(markers[p.marker].alts[alt])
				default:
					sb.WriteString(markers[p.marker].alts[0])
				}
			}
			files[f] = sb.String()
		}
		return files
	}
	return &c04Seed{name: "text:" + name, text: true, files: render(-1, 0), inj: func(st *faults.Stats) []*c04Inj {
		var out []*c04Inj
		for m, mk := range markers {
			for a := 1; a < len(mk.alts); a++ {
				out = append(out, &c04Inj{class: mk.class, kind: mk.kind, detail: mk.detail, files: render(m, a),
					what: fmt.Sprintf("%s: `%s` written instead of `%s` (marker %d of seed %s)", mk.file, mk.alts[a], mk.alts[0], m, name)})
			}
		}
		return out
	}}
}

const c04Lib = `Die öffentliche Zahl oeff_zahl ist 1.
Die öffentliche Zahl oeff_zahl2 ist 11.
Die Zahl priv_zahl ist 2.
Die öffentliche Konstante oeff_konst ist 3.
Die Konstante priv_konst ist 4.

Die öffentliche Funktion oeff_fn mit dem Parameter a vom Typ Zahl, gibt eine Zahl zurück, macht:
	Gib a plus 1 zurück.
Und kann so benutzt werden:
	"oeff_fn_von <a>"

Die Funktion priv_fn mit dem Parameter a vom Typ Zahl, gibt eine Zahl zurück, macht:
	Gib a plus 2 zurück.
Und kann so benutzt werden:
	"priv_fn_von <a>"

Wir nennen die öffentliche Kombination aus
	der öffentlichen Zahl oeff_feld mit Standardwert 0,
	der Zahl priv_feld mit Standardwert 0,
einen OeffKombi, und erstellen sie so:
	"ein leerer OeffKombi"

Wir nennen die Kombination aus
	der öffentlichen Zahl q mit Standardwert 0,
einen PrivKombi, und erstellen sie so:
	"ein leerer PrivKombi"

Wir nennen eine Zahl öffentlich auch eine OeffNummer.
Wir nennen eine Zahl auch eine PrivNummer.
Wir definieren eine OeffMarke öffentlich als eine Zahl.
Wir definieren eine PrivMarke als eine Zahl.

Der öffentliche OeffKombi oeff_kombi ist ein leerer OeffKombi.
`

func c04TextSeeds() []*c04Seed {
	var out []*c04Seed
	add := func(name string, tpls map[string]string) { out = append(out, c04TextSeed(name, tpls)) }

	// ---- T1: whole-module import; every use of a public name has a private twin
	add("module-whole", map[string]string{"lib.ddp": c04Lib, "main.ddp": `Binde "lib" ein.

Die Zahl a ist {{nonpublic;variable;whole-module-import:initialiser|oeff_zahl|priv_zahl}}.
Speichere 5 in {{nonpublic;variable;whole-module-import:assignment-target|oeff_zahl|priv_zahl}}.
Erhöhe {{nonpublic;variable;whole-module-import:compound-assignment|oeff_zahl|priv_zahl}} um 1.
Die Zahl b ist {{nonpublic;constant;whole-module-import:operand|oeff_konst|priv_konst}} plus 1.
Die Zahl c ist {{nonpublic;function;whole-module-import:call-in-initialiser|oeff_fn_von|priv_fn_von}} 3.
Speichere ({{nonpublic;function;whole-module-import:call-as-operand|oeff_fn_von|priv_fn_von}} a) plus 1 in c.
Die Zahl g ist die Größe von einem {{nonpublic;type-kombination;whole-module-import:groesse|OeffKombi|PrivKombi}}.
Die {{nonpublic;type-alias;whole-module-import:variable-declaration|OeffNummer|PrivNummer}} n ist 5.
Die Zahl h ist die Größe von einer {{nonpublic;type-definition;whole-module-import:groesse|OeffMarke|PrivMarke}}.
Die Zahl h2 ist 5 als OeffMarke als Zahl.
Der OeffKombi k ist ein leerer OeffKombi.
Die Zahl f ist {{nonpublic;field;whole-module-import:read-of-imported-variable|oeff_feld|priv_feld}} von oeff_kombi.
Die Zahl f2 ist {{nonpublic;field;whole-module-import:read-of-local-variable|oeff_feld|priv_feld}} von k.
Speichere 1 in {{nonpublic;field;whole-module-import:assignment-target|oeff_feld|priv_feld}} von k.
Erhöhe {{nonpublic;field;whole-module-import:compound-assignment|oeff_feld|priv_feld}} von k um 1.
Speichere 1 in {{constant;assignment;imported-public-constant@global|oeff_zahl|oeff_konst}}.

Die Funktion nimm mit dem Parameter p vom Typ {{nonpublic;type-alias;whole-module-import:parameter-type|OeffNummer|PrivNummer}}, gibt nichts zurück, macht:
	Die Zahl lokal ist p.
Und kann so benutzt werden:
	"nimm <p>"

Die Funktion lies gibt eine Zahl zurück, macht:
	Wenn {{nonpublic;variable;whole-module-import:condition-in-function|oeff_zahl|priv_zahl}} gleich 1 ist, dann:
		Gib {{nonpublic;constant;whole-module-import:returned-value|oeff_konst|priv_konst}} zurück.
	Gib {{nonpublic;function;whole-module-import:call-in-function|oeff_fn_von|priv_fn_von}} 1 zurück.
Und kann so benutzt werden:
	"lies"

Für jede Zahl i von 1 bis {{nonpublic;variable;whole-module-import:loop-bound|oeff_zahl|priv_zahl}}, mache:
	Speichere i in a.
`})

	// ---- T2: selective import
	add("module-selective", map[string]string{"lib.ddp": c04Lib, "main.ddp": `Binde oeff_zahl, oeff_konst{{nonpublic;selective-import-of-private-name;variable||, priv_zahl}}{{nonpublic;selective-import-of-private-name;constant||, priv_konst}}{{nonpublic;selective-import-of-private-name;function||, priv_fn}}{{nonpublic;selective-import-of-private-name;kombination||, PrivKombi}}{{nonpublic;selective-import-of-private-name;type-alias||, PrivNummer}}{{nonpublic;selective-import-of-private-name;type-definition||, PrivMarke}}, oeff_fn, OeffKombi, oeff_kombi und OeffNummer aus "lib" ein.

Die Zahl a ist {{nonpublic;variable;selective-import:initialiser|oeff_zahl|priv_zahl}}.
Die Zahl a2 ist {{undeclared;public-name-not-in-selective-import;variable|oeff_zahl|oeff_zahl2}}.
Die Zahl b ist {{nonpublic;constant;selective-import:initialiser|oeff_konst|priv_konst}}.
Die Zahl c ist {{nonpublic;function;selective-import:call|oeff_fn_von|priv_fn_von}} 3.
Die {{nonpublic;type-alias;selective-import:variable-declaration|OeffNummer|PrivNummer}} n ist 5.
Die Zahl g ist die Größe von einem {{nonpublic;type-kombination;selective-import:groesse|OeffKombi|PrivKombi}}.
Die Zahl h ist die Größe von einer {{undeclared;public-name-not-in-selective-import;type-definition|OeffNummer|OeffMarke}}.
Die Zahl f ist {{nonpublic;field;selective-import:read|oeff_feld|priv_feld}} von oeff_kombi.
Speichere 2 in {{nonpublic;field;selective-import:assignment-target|oeff_feld|priv_feld}} von oeff_kombi.
`})
	add("module-selective-single", map[string]string{"lib.ddp": c04Lib, "main.ddp": `Binde {{nonpublic;selective-import-of-private-name;only-name-variable|oeff_zahl|priv_zahl}} aus "lib" ein.
Binde {{nonpublic;selective-import-of-private-name;only-name-function|oeff_fn|priv_fn}} aus "lib" ein.
Binde {{nonpublic;selective-import-of-private-name;second-of-two|oeff_konst und OeffKombi|oeff_konst und PrivKombi}} aus "lib" ein.
Die Zahl a ist 1.
`})
	// ---- T13: names of a module that is only imported by an imported module
	add("module-transitive", map[string]string{"lib.ddp": c04Lib, "mid.ddp": `Binde "lib" ein.
Die öffentliche Zahl mid_zahl ist oeff_zahl.
Die öffentliche Funktion mid_fn gibt eine Zahl zurück, macht:
	Gib oeff_fn_von 1 zurück.
Und kann so benutzt werden:
	"mid_fn_wert"
`, "main.ddp": `Binde "mid" ein.
Die Zahl a ist {{undeclared;name-of-module-imported-only-by-an-imported-module;variable|mid_zahl|oeff_zahl}}.
Die Zahl b ist {{undeclared;name-of-module-imported-only-by-an-imported-module;function|mid_fn_wert|oeff_fn_von 1}}.
Die Zahl c ist {{nonpublic;variable;transitive-import:initialiser|mid_zahl|priv_zahl}}.
`})

	// ---- T3: constants of every literal type, every mutation form, several scopes
	add("constants", map[string]string{"main.ddp": `Die Konstante k_z ist 4.
Die Konstante k_k ist 4,2.
Die Konstante k_w ist wahr.
Die Konstante k_b ist 'g'.
Die Konstante k_t ist "hallo".
Die Konstante k_lz ist eine Liste, die aus 3, 5, 6 besteht.
Die Konstante k_lt ist eine Liste, die aus "a", "b" besteht.
Die Konstante k_m ist 3 Mal 2.
Die Zahl v_z ist 4.
Die Kommazahl v_k ist 4,2.
Der Wahrheitswert v_w ist wahr.
Der Buchstabe v_b ist 'g'.
Der Text v_t ist "hallo".
Die Zahlen Liste v_lz ist eine Liste, die aus 3, 5, 6 besteht.
Die Text Liste v_lt ist eine Liste, die aus "a", "b" besteht.
Die Zahlen Liste v_m ist 3 Mal 2.

Die Funktion setze_z mit dem Parameter a vom Typ Zahlen Referenz, gibt nichts zurück, macht:
	Speichere 1 in a.
Und kann so benutzt werden:
	"setze_z <a>"
Die Funktion setze_k mit dem Parameter a vom Typ Kommazahlen Referenz, gibt nichts zurück, macht:
	Speichere 1,5 in a.
Und kann so benutzt werden:
	"setze_k <a>"
Die Funktion setze_w mit dem Parameter a vom Typ Wahrheitswert Referenz, gibt nichts zurück, macht:
	Speichere falsch in a.
Und kann so benutzt werden:
	"setze_w <a>"
Die Funktion setze_b mit dem Parameter a vom Typ Buchstaben Referenz, gibt nichts zurück, macht:
	Speichere 'x' in a.
Und kann so benutzt werden:
	"setze_b <a>"
Die Funktion setze_t mit dem Parameter a vom Typ Text Referenz, gibt nichts zurück, macht:
	Speichere "x" in a.
Und kann so benutzt werden:
	"setze_t <a>"
Die Funktion setze_lz mit dem Parameter a vom Typ Zahlen Listen Referenz, gibt nichts zurück, macht:
	Speichere 1 in a an der Stelle 1.
Und kann so benutzt werden:
	"setze_lz <a>"
Die Funktion setze_lt mit dem Parameter a vom Typ Text Listen Referenz, gibt nichts zurück, macht:
	Speichere "x" in a an der Stelle 1.
Und kann so benutzt werden:
	"setze_lt <a>"
Die Funktion zwei mit den Parametern a und b vom Typ Zahl und Zahlen Referenz, gibt nichts zurück, macht:
	Speichere a in b.
Und kann so benutzt werden:
	"zwei <a> <b>"

Speichere 1 in {{constant;assignment;Zahl@global|v_z|k_z}}.
{{constant;assignment-ist-form;Zahl@global|v_z|k_z}} ist 5.
Speichere 2,5 in {{constant;assignment;Kommazahl@global|v_k|k_k}}.
Speichere falsch in {{constant;assignment;Wahrheitswert@global|v_w|k_w}}.
Speichere 'x' in {{constant;assignment;Buchstabe@global|v_b|k_b}}.
Speichere "neu" in {{constant;assignment;Text@global|v_t|k_t}}.
Speichere eine Liste, die aus 1, 2 besteht in {{constant;assignment;Zahlen Liste@global|v_lz|k_lz}}.
Speichere eine Liste, die aus "c", "d" besteht in {{constant;assignment;Text Liste@global|v_lt|k_lt}}.
Speichere 9 in {{constant;assignment-to-element;Zahlen Liste@global|v_lz|k_lz}} an der Stelle 1.
Speichere 9 in {{constant;assignment-to-element;Zahlen Liste (n Mal x)@global|v_m|k_m}} an der Stelle 1.
Speichere "c" in {{constant;assignment-to-element;Text Liste@global|v_lt|k_lt}} an der Stelle 2.
Speichere 'x' in {{constant;assignment-to-element;Text@global|v_t|k_t}} an der Stelle 1.
Erhöhe {{constant;compound-assignment:erhoehe;Zahl@global|v_z|k_z}} um 1.
Verringere {{constant;compound-assignment:verringere;Zahl@global|v_z|k_z}} um 1.
Vervielfache {{constant;compound-assignment:vervielfache;Zahl@global|v_z|k_z}} um 2.
Teile {{constant;compound-assignment:teile;Kommazahl@global|v_k|k_k}} durch 2.
Negiere {{constant;compound-assignment:negiere;Zahl@global|v_z|k_z}}.
Negiere {{constant;compound-assignment:negiere;Wahrheitswert@global|v_w|k_w}}.
Verschiebe {{constant;compound-assignment:shl;Zahl@global|v_z|k_z}} um 1 Bit nach Links.
Verschiebe {{constant;compound-assignment:shr;Zahl@global|v_z|k_z}} um 1 Bit nach Rechts.
Erhöhe {{constant;compound-assignment:erhoehe;Kommazahl@global|v_k|k_k}} um 0,5.
Erhöhe {{constant;compound-assignment-of-element:erhoehe;Zahlen Liste@global|v_lz|k_lz}} an der Stelle 2 um 1.
setze_z {{constant;referenz-argument;Zahl@global|v_z|k_z}}.
setze_k {{constant;referenz-argument;Kommazahl@global|v_k|k_k}}.
setze_w {{constant;referenz-argument;Wahrheitswert@global|v_w|k_w}}.
setze_b {{constant;referenz-argument;Buchstabe@global|v_b|k_b}}.
setze_t {{constant;referenz-argument;Text@global|v_t|k_t}}.
setze_lz {{constant;referenz-argument;Zahlen Liste@global|v_lz|k_lz}}.
setze_lt {{constant;referenz-argument;Text Liste@global|v_lt|k_lt}}.
setze_z ({{constant;referenz-argument-element;Zahlen Liste@global|v_lz|k_lz}} an der Stelle 1).
setze_t ({{constant;referenz-argument-element;Text Liste@global|v_lt|k_lt}} an der Stelle 1).
setze_z ({{constant;referenz-argument-parenthesised;Zahl@global|v_z|k_z}}).
zwei 1 {{constant;referenz-argument-second-parameter;Zahl@global|v_z|k_z}}.

Wenn v_w, dann:
	Speichere 1 in {{constant;assignment;Zahl@then|v_z|k_z}}.
	setze_z {{constant;referenz-argument;Zahl@then|v_z|k_z}}.
Sonst:
	Erhöhe {{constant;compound-assignment:erhoehe;Zahl@else|v_z|k_z}} um 1.
Für jede Zahl i von 1 bis 2, mache:
	Speichere i in {{constant;assignment;Zahl@for|v_z|k_z}}.
	Wenn i gleich 1 ist, dann:
		Erhöhe {{constant;compound-assignment:erhoehe;Zahl@for-then|v_z|k_z}} um i.
Solange v_z kleiner als 0 ist, mache:
	setze_z {{constant;referenz-argument;Zahl@while|v_z|k_z}}.

Die Funktion lokal mit dem Parameter p vom Typ Zahl, gibt nichts zurück, macht:
	Die Konstante k_lok ist 1.
	Die Konstante k_ltx ist "t".
	Die Zahl v_lok ist 1.
	Der Text v_ltx ist "t".
	Speichere p in {{constant;assignment;local Zahl@func|v_lok|k_lok}}.
	Speichere p in {{constant;assignment;global Zahl@func|v_z|k_z}}.
	Erhöhe {{constant;compound-assignment:erhoehe;local Zahl@func|v_lok|k_lok}} um p.
	setze_z {{constant;referenz-argument;local Zahl@func|v_lok|k_lok}}.
	setze_t {{constant;referenz-argument;local Text@func|v_ltx|k_ltx}}.
	Wiederhole:
		Die Konstante k_tief ist 2.
		Die Zahl v_tief ist 2.
		Speichere 3 in {{constant;assignment;local Zahl@func-repeat|v_tief|k_tief}}.
	2 Mal.
Und kann so benutzt werden:
	"lokal <p>"
`})

	// ---- T4: type aliases and definitions: gender positions, wrong types
	add("aliases", map[string]string{"main.ddp": `Wir nennen {{gender;alias-declaration-underlying-type;Zahl|eine|einen|ein}} Zahl auch eine Hausnummer.
Wir nennen {{gender;alias-declaration-underlying-type;Text|einen|eine|ein}} Text auch einen Namen.
Wir nennen {{gender;alias-declaration-underlying-type;Zahlen Liste|eine|einen|ein}} Zahlen Liste auch eine Reihe.
Wir nennen eine Zahl auch ein Mass.
Wir definieren eine Marke als {{gender;definition-declaration-underlying-type;Zahl|eine|einen|ein}} Zahl.
Wir definieren einen Titel als {{gender;definition-declaration-underlying-type;Text|einen|eine|ein}} Text.
Wir definieren ein Siegel als {{gender;definition-declaration-underlying-type;Wahrheitswert|einen|eine|ein}} Wahrheitswert.

{{gender;vardecl;alias-feminine|Die|Der|Das}} Hausnummer h ist 22.
{{gender;vardecl;alias-masculine|Der|Die|Das}} Namen n ist "x".
{{gender;vardecl;alias-feminine-list|Die|Der|Das}} Reihe r ist eine Liste, die aus 1, 2 besteht.
{{gender;vardecl;alias-neuter|Das|Der|Die}} Mass ms ist 3.
{{gender;vardecl;definition-feminine|Die|Der|Das}} Marke m ist 5 als Marke.
{{gender;vardecl;definition-masculine|Der|Die|Das}} Titel t ist "x" als Titel.
{{gender;vardecl;definition-neuter|Das|Der|Die}} Siegel sg ist wahr als Siegel.
{{gender;vardecl;list-of-alias|Die|Der|Das}} Hausnummer Liste hl ist eine Liste, die aus 1, 2 besteht.

Die Zahl summe ist 0.
Für {{gender;for-pronoun;alias-feminine|jede|jeden|jedes}} Hausnummer i von 1 bis 2, mache:
	Erhöhe summe um i.
Für {{gender;for-pronoun;alias-neuter|jedes|jeden|jede}} Mass j von 1 bis 2, mache:
	Erhöhe summe um j.
Für {{gender;for-pronoun;alias-feminine-element|jede|jeden|jedes}} Hausnummer e in hl, mache:
	Erhöhe summe um e.

Die Funktion gib_h gibt {{gender;return-type;alias-feminine|eine|einen|ein}} Hausnummer zurück, macht:
	Gib {{wrongtype;returned-value;alias-of-Zahl<-Text|1|"eins"}} zurück.
Und kann so benutzt werden:
	"gib_h"
Die Funktion gib_n gibt {{gender;return-type;alias-masculine|einen|eine|ein}} Namen zurück, macht:
	Gib {{wrongtype;returned-value;alias-of-Text<-Zahl|"n"|1}} zurück.
Und kann so benutzt werden:
	"gib_n"
Die Funktion gib_ms gibt {{gender;return-type;alias-neuter|ein|einen|eine}} Mass zurück, macht:
	Gib 1 zurück.
Und kann so benutzt werden:
	"gib_ms"
Die Funktion gib_m gibt {{gender;return-type;definition-feminine|eine|einen|ein}} Marke zurück, macht:
	Gib {{wrongtype;returned-value;definition-of-Zahl<-Zahl-without-conversion|1 als Marke|1|summe}} zurück.
Und kann so benutzt werden:
	"gib_m"
Die Funktion gib_zm gibt eine Zahl zurück, macht:
	Gib {{wrongtype;returned-value;Zahl<-definition-of-Zahl-without-conversion|1|1 als Marke}} zurück.
Und kann so benutzt werden:
	"gib_zm"

Die Zahl g1 ist die Größe von {{gender;groesse;alias-feminine|einer|einem}} Hausnummer.
Die Zahl g2 ist die Größe von {{gender;groesse;alias-masculine|einem|einer}} Namen.
Die Zahl g3 ist die Größe von {{gender;groesse;alias-neuter|einem|einer}} Mass.
Die Zahl g4 ist die Größe von {{gender;groesse;definition-feminine|einer|einem}} Marke.
Die Marke d1 ist der Standardwert von {{gender;standardwert;definition-feminine|einer|einem}} Marke.
Der Titel d2 ist der Standardwert von {{gender;standardwert;definition-masculine|einem|einer}} Titel.
Die Variable var ist 5.
Der Wahrheitswert w1 ist var {{gender;typecheck;alias-feminine|eine|ein}} Hausnummer ist.
Der Wahrheitswert w2 ist var {{gender;typecheck;alias-masculine|ein|eine}} Namen ist.
Der Wahrheitswert w3 ist var {{gender;typecheck;definition-neuter|ein|eine}} Siegel ist.
Der Wahrheitswert w4 ist var {{gender;typecheck-negated;alias-feminine|keine|kein}} Hausnummer ist.
Der Wahrheitswert w5 ist var {{gender;typecheck-negated;definition-masculine|kein|keine}} Titel ist.

Die Hausnummer h2 ist {{wrongtype;initialiser;alias-of-Zahl<-Text|22|"text"}}.
Die Hausnummer h3 ist {{wrongtype;initialiser;alias-of-Zahl<-Wahrheitswert|22|wahr}}.
Speichere {{wrongtype;assigned-value;alias-of-Zahl<-Text|7|"text"}} in h.
Der Namen n2 ist {{wrongtype;initialiser;alias-of-Text<-Zahl|"n"|22}}.
Die Reihe r2 ist {{wrongtype;initialiser;alias-of-Zahlen Liste<-Text|r|"text"}}.
Der Titel t2 ist {{wrongtype;initialiser;definition-of-Text<-Text-without-conversion|"x" als Titel|"x"}}.
Speichere {{wrongtype;assigned-value;definition-of-Text<-Text-without-conversion|"y" als Titel|"y"}} in t.
Das Siegel sg2 ist {{wrongtype;initialiser;definition-of-Wahrheitswert<-Wahrheitswert-without-conversion|wahr als Siegel|wahr}}.
Der Text t3 ist {{wrongtype;initialiser;Text<-definition-of-Text-without-conversion|t als Text|t}}.
`})

	// ---- T5: Kombinationen of every gender
	add("kombinationen", map[string]string{"main.ddp": `Wir nennen die Kombination aus
	{{gender;field;Zahl|der|dem}} Zahl x mit Standardwert 0,
	{{gender;field;Text|dem|der}} Text name mit Standardwert "",
	{{gender;field;Zahlen Liste|der|dem}} Zahlen Liste werte,
	{{gender;field;Wahrheitswert|dem|der}} Wahrheitswert aktiv,
einen Vektor, und erstellen sie so:
	"der Nullvektor"

Wir nennen die Kombination aus
	{{gender;field;Kombination-masculine|dem|der}} Vektor v,
	{{gender;field;Kommazahl|der|dem}} Kommazahl k,
eine Struktur, und erstellen sie so:
	"die Nullstruktur"

Wir nennen die Kombination aus
	{{gender;field;Kombination-feminine|der|dem}} Struktur s,
	{{gender;field;Buchstabe|dem|der}} Buchstabe b,
	{{gender;field;Byte|dem|der}} Byte y,
	{{gender;field;Variable|der|dem}} Variable var,
ein Ding, und erstellen sie so:
	"das Nullding"

{{gender;vardecl;Kombination-masculine|Der|Die|Das}} Vektor vek ist der Nullvektor.
{{gender;vardecl;Kombination-feminine|Die|Der|Das}} Struktur str ist die Nullstruktur.
{{gender;vardecl;Kombination-neuter|Das|Der|Die}} Ding ding ist das Nullding.
{{gender;vardecl;list-of-Kombination|Die|Der|Das}} Vektor Liste vl ist eine leere Vektor Liste.
Die Ding Liste dl ist eine leere Ding Liste.
Die Struktur Liste sl ist eine leere Struktur Liste.

Für {{gender;for-pronoun;Kombination-masculine|jeden|jede|jedes}} Vektor e in vl, mache:
	Speichere e in vek.
Für {{gender;for-pronoun;Kombination-neuter|jedes|jeden|jede}} Ding e2 in dl, mache:
	Speichere e2 in ding.
Für {{gender;for-pronoun;Kombination-feminine|jede|jeden|jedes}} Struktur e3 in sl, mache:
	Speichere e3 in str.

Die Funktion gib_v gibt {{gender;return-type;Kombination-masculine|einen|eine|ein}} Vektor zurück, macht:
	Gib der Nullvektor zurück.
Und kann so benutzt werden:
	"gib_v"
Die Funktion gib_s gibt {{gender;return-type;Kombination-feminine|eine|einen|ein}} Struktur zurück, macht:
	Gib die Nullstruktur zurück.
Und kann so benutzt werden:
	"gib_s"
Die Funktion gib_d gibt {{gender;return-type;Kombination-neuter|ein|einen|eine}} Ding zurück, macht:
	Gib das Nullding zurück.
Und kann so benutzt werden:
	"gib_d"
Die Funktion gib_vl gibt {{gender;return-type;list-of-Kombination|eine|einen|ein}} Vektor Liste zurück, macht:
	Gib vl zurück.
Und kann so benutzt werden:
	"gib_vl"

Die Zahl g1 ist die Größe von {{gender;groesse;Kombination-masculine|einem|einer}} Vektor.
Die Zahl g2 ist die Größe von {{gender;groesse;Kombination-feminine|einer|einem}} Struktur.
Die Zahl g3 ist die Größe von {{gender;groesse;Kombination-neuter|einem|einer}} Ding.
Die Zahl g4 ist die Größe von {{gender;groesse;list-of-Kombination|einer|einem}} Vektor Liste.
Der Vektor d1 ist der Standardwert von {{gender;standardwert;Kombination-masculine|einem|einer}} Vektor.
Die Struktur d2 ist der Standardwert von {{gender;standardwert;Kombination-feminine|einer|einem}} Struktur.
Das Ding d3 ist der Standardwert von {{gender;standardwert;Kombination-neuter|einem|einer}} Ding.
Die Variable var ist vek.
Der Wahrheitswert w1 ist var {{gender;typecheck;Kombination-masculine|ein|eine}} Vektor ist.
Der Wahrheitswert w2 ist var {{gender;typecheck;Kombination-feminine|eine|ein}} Struktur ist.
Der Wahrheitswert w3 ist var {{gender;typecheck;Kombination-neuter|ein|eine}} Ding ist.
Der Wahrheitswert w4 ist var {{gender;typecheck;list-of-Kombination|eine|ein}} Vektor Liste ist.

Die Zahl fx ist x von vek.
Speichere {{wrongtype;assigned-value;field-Zahl<-Text|1|"eins"}} in x von vek.
Speichere {{wrongtype;assigned-value;field-Text<-Zahl|"n"|1}} in name von vek.
Speichere {{wrongtype;assigned-value;Kombination<-Kombination-of-other-type|der Nullvektor|die Nullstruktur}} in vek.
Der Vektor vek2 ist {{wrongtype;initialiser;Kombination<-Zahl|der Nullvektor|5}}.
Die Zahl fy ist {{undeclared;field-that-does-not-exist;read|x|gibtsnicht}} von vek.
Die Zahl g0 ist die Größe von einem {{undeclared;type-name;groesse|Vektor|Unbekannttyp}}.
Der {{undeclared;type-name;variable-declaration|Vektor|Unbekannttyp}} vek3 ist der Nullvektor.
Der Vektor vek4 ist {{undeclared;function-or-constructor;initialiser|gib_v|gib_unbekannt}}.
`})

	// ---- T6: article positions of the built-in types that cdm does not print
	add("builtin-articles", map[string]string{"main.ddp": `Die Zahl g1 ist die Größe von {{gender;groesse;Zahl|einer|einem}} Zahl.
Die Zahl g2 ist die Größe von {{gender;groesse;Kommazahl|einer|einem}} Kommazahl.
Die Zahl g3 ist die Größe von {{gender;groesse;Byte|einem|einer}} Byte.
Die Zahl g4 ist die Größe von {{gender;groesse;Wahrheitswert|einem|einer}} Wahrheitswert.
Die Zahl g5 ist die Größe von {{gender;groesse;Buchstabe|einem|einer}} Buchstabe.
Die Zahl g6 ist die Größe von {{gender;groesse;Text|einem|einer}} Text.
Die Zahl g7 ist die Größe von {{gender;groesse;Zahlen Liste|einer|einem}} Zahlen Liste.
Die Zahl g8 ist die Größe von {{gender;groesse;Text Liste|einer|einem}} Text Liste.
Die Zahl g9 ist die Größe von {{gender;groesse;Variable|einer|einem}} Variable.
Die Zahl g10 ist die Größe von {{gender;groesse;Buchstaben Liste|einer|einem}} Buchstaben Liste.
Die Zahl s1 ist der Standardwert von {{gender;standardwert;Zahl|einer|einem}} Zahl.
Die Kommazahl s2 ist der Standardwert von {{gender;standardwert;Kommazahl|einer|einem}} Kommazahl.
Der Byte s3 ist der Standardwert von {{gender;standardwert;Byte|einem|einer}} Byte.
Der Wahrheitswert s4 ist der Standardwert von {{gender;standardwert;Wahrheitswert|einem|einer}} Wahrheitswert.
Der Buchstabe s5 ist der Standardwert von {{gender;standardwert;Buchstabe|einem|einer}} Buchstabe.
Der Text s6 ist der Standardwert von {{gender;standardwert;Text|einem|einer}} Text.
Die Zahlen Liste s7 ist der Standardwert von {{gender;standardwert;Zahlen Liste|einer|einem}} Zahlen Liste.
Die Variable v ist 5.
Der Wahrheitswert w1 ist v {{gender;typecheck;Zahl|eine|ein}} Zahl ist.
Der Wahrheitswert w2 ist v {{gender;typecheck;Kommazahl|eine|ein}} Kommazahl ist.
Der Wahrheitswert w3 ist v {{gender;typecheck;Byte|ein|eine}} Byte ist.
Der Wahrheitswert w4 ist v {{gender;typecheck;Wahrheitswert|ein|eine}} Wahrheitswert ist.
Der Wahrheitswert w5 ist v {{gender;typecheck;Buchstabe|ein|eine}} Buchstabe ist.
Der Wahrheitswert w6 ist v {{gender;typecheck;Text|ein|eine}} Text ist.
Der Wahrheitswert w7 ist v {{gender;typecheck;Zahlen Liste|eine|ein}} Zahlen Liste ist.
Der Wahrheitswert w8 ist v {{gender;typecheck-negated;Zahl|keine|kein}} Zahl ist.
Der Wahrheitswert w9 ist v {{gender;typecheck-negated;Text|kein|keine}} Text ist.
{{gender;vardecl;Variable|Die|Der|Das}} Variable v2 ist "t".
{{gender;vardecl;Variablen Liste|Die|Der|Das}} Variablen Liste vl ist eine leere Variablen Liste.
Die Funktion gib_var gibt {{gender;return-type;Variable|eine|einen|ein}} Variable zurück, macht:
	Gib 1 zurück.
Und kann so benutzt werden:
	"gib_var"
Für {{gender;for-pronoun;Variable|jede|jeden|jedes}} Variable e in vl, mache:
	Speichere e in v2.
`})

	// ---- T7: forward declarations
	add("forward-declarations", map[string]string{"main.ddp": `Die Funktion vor mit dem Parameter a vom Typ Zahl, gibt eine Zahl zurück,
wird später definiert
und kann so benutzt werden:
	"vor <a>"

Die Funktion leer gibt nichts zurück,
wird später definiert
und kann so benutzt werden:
	"leer"

Die Zahl x ist vor 3.
leer.

Die Funktion vor macht:
	Wenn a gleich 0 ist, dann:
		Gib {{wrongtype;returned-value;forward-definition:Zahl<-Text|0|"null"}} zurück.
	{{loopcontrol;verlasse:forward-definition-body;block-middle|Speichere 1 in x.|Verlasse die Schleife.}}
	{{noreturn;forward-definition:final-return-deleted;Zahl|Gib a minus 1 zurück.|Speichere 1 in x.}}

Die Funktion leer macht:
	Speichere {{outofscope;parameter-in-other-function;forward-definition-body|x|a}} in x.
	{{loopcontrol;fahre-fort:forward-definition-body;block-end|Speichere 2 in x.|Fahre mit der Schleife fort.}}

Die Zahl y ist {{outofscope;parameter-of-forward-declared-function-at-top-level;Zahl|x|a}}.
`})

	// ---- T8: redeclaration of every declaration kind
	add("redeclarations", map[string]string{"main.ddp": `Die Funktion eins gibt nichts zurück, macht:
	Die Zahl l ist 1.
Und kann so benutzt werden:
	"mache eins"

Die Funktion {{redeclaration;function;global|zwei|eins}} gibt nichts zurück, macht:
	Die Zahl l ist 2.
Und kann so benutzt werden:
	"mache zwei"

Wir nennen die Kombination aus
	der Zahl x mit Standardwert 0,
einen Punkt, und erstellen sie so:
	"ein Nullpunkt"

Wir nennen die Kombination aus
	der Zahl y mit Standardwert 0,
einen {{redeclaration;kombination;global|Kreis|Punkt}}, und erstellen sie so:
	"ein Nullkreis"

Wir nennen eine Zahl auch eine Nummer.
Wir nennen eine Zahl auch eine {{redeclaration;type-alias;global|Ziffer|Nummer}}.
Wir definieren eine Marke als eine Zahl.
Wir definieren eine {{redeclaration;type-definition;global|Plakette|Marke}} als eine Zahl.
Die Konstante k ist 1.
Die Konstante {{redeclaration;constant;global|k2|k}} ist 2.
Die Zahl v ist 1.
Die Konstante {{redeclaration;constant-after-variable;global|k3|v}} ist 3.
Die Zahl {{redeclaration;variable-after-constant;global|v2|k}} ist 3.
Der Text {{redeclaration;variable-of-other-type;global|v3|v}} ist "t".

Die Funktion lokal mit dem Parameter p vom Typ Zahl, gibt nichts zurück, macht:
	Die Konstante lk ist 1.
	Die Konstante {{redeclaration;constant;func@1|lk2|lk}} ist 2.
	Die Konstante {{redeclaration;constant-vs-parameter;func@1|lk3|p}} ist 2.
	Wenn p gleich 1 ist, dann:
		Die Zahl tief ist 1.
		Die Konstante {{redeclaration;constant-after-variable;then@2|tief2|tief}} ist 2.
Und kann so benutzt werden:
	"lokal <p>"
`})

	// ---- T9: loop control next to every loop form incl. single-statement bodies and the bare block
	add("loop-forms", map[string]string{"main.ddp": `Die Zahl z ist 0.
Wenn z gleich 0 ist, {{loopcontrol;verlasse:if-single-statement;top-level|Speichere 1 in z.|Verlasse die Schleife.}}
Wenn z gleich 0 ist, {{loopcontrol;fahre-fort:if-single-statement;top-level|Speichere 1 in z.|Fahre mit der Schleife fort.}}
:
	Speichere 2 in z.
	{{loopcontrol;fahre-fort:bare-block;top-level|Speichere 2 in z.|Fahre mit der Schleife fort.}}
	{{loopcontrol;verlasse:bare-block;top-level|Speichere 2 in z.|Verlasse die Schleife.}}
Für jede Zahl i von 1 bis 2, mache:
	Speichere i in z.
{{loopcontrol;verlasse:directly-after-loop;for|Speichere 3 in z.|Verlasse die Schleife.}}
Solange z kleiner als 0 ist, mache:
	Speichere 0 in z.
{{loopcontrol;verlasse:directly-after-loop;while|Speichere 3 in z.|Verlasse die Schleife.}}
Mache:
	Speichere 0 in z.
Solange z kleiner als 0 ist.
{{loopcontrol;fahre-fort:directly-after-loop;dowhile|Speichere 3 in z.|Fahre mit der Schleife fort.}}
Wiederhole:
	Speichere 0 in z.
2 Mal.
{{loopcontrol;verlasse:directly-after-loop;repeat|Speichere 3 in z.|Verlasse die Schleife.}}
Für jeden Buchstaben b in "ab", mache:
	Speichere 0 in z.
{{loopcontrol;fahre-fort:directly-after-loop;foreach|Speichere 3 in z.|Fahre mit der Schleife fort.}}
Solange z kleiner als 3 ist, Erhöhe z um 1.
{{loopcontrol;verlasse:directly-after-loop;while-single-statement|Speichere 3 in z.|Verlasse die Schleife.}}
Für jede Zahl j von 1 bis 2, Speichere j in z.
{{loopcontrol;verlasse:directly-after-loop;for-single-statement|Speichere 3 in z.|Verlasse die Schleife.}}
Für jeden Buchstaben b2 in "ab", Speichere 1 in z.
{{loopcontrol;fahre-fort:directly-after-loop;foreach-single-statement|Speichere 3 in z.|Fahre mit der Schleife fort.}}
Speichere 1 in z 3 Mal.
{{loopcontrol;verlasse:directly-after-loop;postfix-repeat|Speichere 3 in z.|Verlasse die Schleife.}}
Für jede Zahl a von 1 bis 2, mache:
	Für jede Zahl b3 von 1 bis 2, mache:
		Wenn a gleich b3 ist, Verlasse die Schleife.
	Fahre mit der Schleife fort.
{{loopcontrol;verlasse:directly-after-loop;nested-for|Speichere 3 in z.|Verlasse die Schleife.}}

Die Funktion fn gibt nichts zurück, macht:
	Wiederhole:
		Verlasse die Schleife.
	2 Mal.
	{{loopcontrol;verlasse:directly-after-loop;repeat-in-function|Speichere 3 in z.|Verlasse die Schleife.}}
Und kann so benutzt werden:
	"fn"
Für jede Zahl c von 1 bis 2, mache:
	fn.
`})

	// ---- T10: scopes of the bare block and of single-statement branches
	add("scopes", map[string]string{"main.ddp": `Die Zahl aussen ist 1.
:
	Die Zahl innen ist 2.
	Speichere innen in aussen.
	:
		Die Zahl ganz_innen ist 3.
		Speichere ganz_innen in aussen.
	Speichere {{outofscope;block-local:bare-block-local-used-1-level-up;Zahl@bare-block|innen|ganz_innen}} in aussen.
Speichere {{outofscope;block-local:bare-block-local-used-1-level-up;Zahl@top-level|aussen|innen}} in aussen.
Speichere {{outofscope;block-local:bare-block-local-used-2-level-up;Zahl@top-level|aussen|ganz_innen}} in aussen.
Wenn aussen gleich 1 ist, dann:
	Der Text im_dann ist "d".
Sonst:
	Der Text im_sonst ist "s".
Der Text t ist {{outofscope;block-local:else-local-used-1-level-up;Text@top-level|"t"|im_sonst}}.
Für jede Zahl i von 1 bis 2, mache:
	Die Zahl im_rumpf ist i.
Die Zahl danach ist {{outofscope;loopvar-after-for-loop;Zahl@top-level|aussen|i}}.
Die Zahl danach2 ist {{outofscope;block-local:for-local-used-1-level-up;Zahl@top-level|aussen|im_rumpf}}.
Die Funktion fn mit dem Parameter par vom Typ Zahl, gibt eine Zahl zurück, macht:
	Die Zahl lok ist par.
	Gib lok zurück.
Und kann so benutzt werden:
	"fn <par>"
Die Zahl danach3 ist {{outofscope;parameter-at-top-level;Zahl|aussen|par}}.
Die Zahl danach4 ist {{outofscope;function-local-at-top-level;Zahl|aussen|lok}}.
Die Funktion fn2 gibt eine Zahl zurück, macht:
	Gib {{outofscope;parameter-in-other-function;Zahl|aussen|par}} zurück.
Und kann so benutzt werden:
	"fn2"
`})
	return out
}
