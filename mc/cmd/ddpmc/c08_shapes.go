package main

// C08, family "shape": the value-argument part of C08 extended by the dimension *callee shape*.
//
//	value kind (7) × way the callee changes its by-value parameter (whole / indexed / field / compound
//	assignment, passed on by Referenz to a helper that mutates, passed on by value to a helper that mutates
//	its copy) × callee shape (plain, forward-declared and defined after / before the call site, directly
//	recursive (plain and forward-declared), mutually recursive through a forward declaration, helper
//	forward-declared; thorough: three more placements of the definition) × caller argument (global
//	variable, local variable, parameter of the calling function, element / field of a variable)
//
// Oracle as everywhere in C08: the cdm prediction (value semantics by construction). Every program prints
// the caller's variable before and after the call, the callee prints its parameter at every level of the
// call chain. Every declaration of a case stands in textual order inside the case body (cdm.FuncDecl /
// cdm.FuncDef statements), so a case reads the same alone and inside a batch program.
// Key: C08:shape:<kind>:<mutation>:<callee shape>:<argument>.

import (
	"fmt"
	"os"
	"path/filepath"
	"strings"

	"ddpmc/internal/batch"
	. "ddpmc/internal/cdm"
	"ddpmc/internal/ev"
)

// runC08Shapes runs the family (called from runC08), adds its numbers to st and returns its cases.
func runC08Shapes(c *ev.Ctx, tier string, levels []uint, st *batch.Stats) []*batch.Case {
	cases := genC08Shapes(tier)
	if d := os.Getenv("VERIF_C08_DUMP"); d != "" { // development aid: write every program of the family and its prediction
		c08DumpShapes(d, cases)
	}
	st2 := batch.Run(c, cases, batch.Opts{Prop: "C08", Family: "shape", Levels: levels, BatchSize: 12, Asan: true, Extra: func(r rxRun) string { return memoryVerdictAsanOnly(r) }})
	c.Set("stats_shape", st2)
	c.Sample(map[string]any{"case": cases[len(cases)/3].Desc, "key": "shape:" + cases[len(cases)/3].Key})
	c.Set("rule_shape", "family shape: state = (value kind, way the callee changes its by-value parameter, callee shape, caller argument); each compiled at the listed levels on the ASan runtime; the caller's variable is printed before and after the call, the parameter at every level of the call chain, and compared with the cdm (value-semantics) prediction")
	c.Set("bounds_shape", map[string]any{"cases": len(cases), "kinds": len(heapKinds()), "parameter_changes": len(c08ShapeMuts()), "callee_shapes": c08ShapesOf(tier), "caller_arguments": c08Args, "opt_levels": levels})
	st.Cases, st.Unspecified, st.Solo, st.Programs, st.Builds, st.Runs, st.Failed = st.Cases+st2.Cases, st.Unspecified+st2.Unspecified, st.Solo+st2.Solo, st.Programs+st2.Programs, st.Builds+st2.Builds, st.Runs+st2.Runs, st.Failed+st2.Failed
	return cases
}

// development aid: VERIF_C08_SHAPE_ONLY=1 ./run C08 quick runs only this family (reported as capped, never used for evidence)
func init() {
	if os.Getenv("VERIF_C08_SHAPE_ONLY") == "" {
		return
	}
	checks["C08"] = check{func(tier string) int {
		c := ev.New("C08", tier)
		c.Budget(map[string]int{"quick": 420, "thorough": 2700}[tier])
		c.Capped("VERIF_C08_SHAPE_ONLY: only the family shape was run")
		levels := []uint{1, 2}
		if tier == "thorough" {
			levels = []uint{0, 1, 2}
		}
		var st batch.Stats
		cases := runC08Shapes(c, tier, levels, &st)
		c.Set("stats", st)
		c.Set("evaluations", st.Cases)
		c.Set("states", st.Cases-st.Unspecified)
		c.Set("transitions", st.Runs)
		c.Set("traces_validated_against_impl", st.Runs)
		c.Set("distinct_nontrivial", len(cases))
		return c.Finish()
	}, replayC08}
}

// holder of the list kinds for the argument form "part" (a field of a variable)
var stHalter = &Type{K: KStruct, Name: "Halter", Gender: "m", Fields: []Field{{"texte", ListOf(Text)}, {"werte", ListOf(Zahl)}, {"dinge", ListOf(stQ)}}}

// c08Deep prints every part of a value of kind k that one of the mutation forms can change.
func c08Deep(k heapKind, label string, e Expr) []Stmt {
	idx := func(l Expr, i int64, t *Type) Expr { return &Bin{Op: "index", L: l, R: zl(i), T: t} }
	ein := func(e Expr) []Stmt {
		w := &FieldOf{Name: "werte", X: e, T: ListOf(Zahl)}
		first := &If{Cond: &Bin{Op: "groesser", L: &Un{Op: "laenge", X: w, T: Zahl}, R: zl(0), T: Bool}, Then: pr(idx(w, 1, Zahl))} // the "indexed" form stores an element whose list is empty
		return seq(pr(&FieldOf{Name: "name", X: e, T: Text}), pr(&Un{Op: "laenge", X: w, T: Zahl}), one(first), pr(&FieldOf{Name: "b", X: e, T: Byte}))
	}
	ln := func(e Expr) []Stmt { return pr(&Un{Op: "laenge", X: e, T: Zahl}) }
	var body []Stmt
	switch k.name {
	case "Text":
		// not `Schreibe den Text w`: handing the variable itself to a function of another module makes
		// ConstFuncParamAnnotator give up on it (no attachment → not const) and would hide an elided copy
		body = pr(&Bin{Op: "verkettet", L: e, R: tl(""), T: Text})
	case "ZahlenListe":
		body = seq(ln(e), pr(idx(e, 1, Zahl)), pr(idx(e, 2, Zahl)), pr(idx(e, 3, Zahl)))
	case "TextListe":
		body = seq(ln(e), pr(idx(e, 1, Text)), pr(idx(e, 2, Text)), pr(idx(e, 3, Text)))
	case "Kombination":
		body = ein(e)
	case "KombinationenListe":
		body = seq(ln(e), ein(idx(e, 1, stQ)), ein(idx(e, 2, stQ)))
	case "VariableMitText":
		body = pr(&Cast{X: e, T: Text})
	case "VariableMitKombination":
		body = ein(&Cast{X: e, T: stQ})
	default:
		panic("c08Deep: kind " + k.name)
	}
	return seq(one(prs(label+"\n")), body)
}

type c08ShapeMut struct {
	name   string
	direct string // name of the c08Mutations form applied to the parameter itself ("" = through a helper)
	helper string // "", "ref", "val"
}

func c08ShapeMuts() []c08ShapeMut {
	return []c08ShapeMut{
		{"whole", "whole", ""}, {"indexed", "indexed", ""}, {"field", "field", ""}, {"compound-element", "compound-element", ""},
		{"ref-helper", "", "ref"}, {"val-helper", "", "val"},
	}
}

var c08Shapes = []string{"plain", "fwd-def-after", "fwd-def-before", "recursive", "recursive-fwd", "mutual", "helper-fwd"}

// only in the thorough tier: the definition of the forward-declared partner stands before the call site
var c08ShapesThorough = []string{"mutual-def-before", "helper-fwd-def-before", "fwd-def-after-nothing-between"}

var c08Args = []string{"global", "local", "param", "part"}

func c08ShapesOf(tier string) []string {
	if tier == "thorough" {
		return append(append([]string{}, c08Shapes...), c08ShapesThorough...)
	}
	return c08Shapes
}

func genC08Shapes(tier string) []*batch.Case {
	forms := map[string]mutForm{}
	for _, mf := range c08Mutations() {
		forms[mf.name] = mf
	}
	shapes := c08ShapesOf(tier)
	var out []*batch.Case
	cnt := 0
	for _, k := range heapKinds() {
		k := k
		for _, sm := range c08ShapeMuts() {
			// the statements that change the holder h
			dname := sm.direct
			if dname == "" {
				switch {
				case forms["indexed"].ok(k):
					dname = "indexed"
				case forms["field"].ok(k):
					dname = "field"
				default:
					dname = "whole"
				}
			}
			if !forms[dname].ok(k) {
				continue
			}
			D := func(h Expr) []Stmt { st, _ := forms[dname].mk("", k, h); return st }
			for _, shape := range shapes {
				if sm.helper == "" && (shape == "helper-fwd" || shape == "helper-fwd-def-before") {
					continue // there is no helper
				}
				for _, arg := range c08Args {
					cnt++
					p := fmt.Sprintf("s%d", cnt)
					body, structs := c08ShapeCase(p, k, sm, D, shape, arg)
					out = append(out, &batch.Case{Key: k.name + ":" + sm.name + ":" + shape + ":" + arg,
						Desc:    "kind " + k.name + ", by-value parameter changed by " + sm.name + " (" + dname + "), callee shape " + shape + ", argument is a " + arg,
						Structs: structs, Body: body})
				}
			}
		}
	}
	return out
}

// c08ShapeCase builds one program fragment; all declarations stand in the body in textual order.
func c08ShapeCase(p string, k heapKind, sm c08ShapeMut, D func(Expr) []Stmt, shape, arg string) ([]Stmt, []*Type) {
	w, r, v, n := vr("w", k.t), vr("r", k.t), vr("v", k.t), vr("n", Zahl)
	deep := func(label string, e Expr) []Stmt { return c08Deep(k, label, e) }
	callS := func(f *Func, args ...Expr) Stmt { return &ExprStmt{X: &Call{F: f, Args: args}} }
	pos := &Bin{Op: "groesser", L: n, R: zl(0), T: Bool}
	nm1 := &Bin{Op: "minus", L: n, R: zl(1), T: Zahl}
	vp := func(name string) Param { return Param{Name: name, T: k.t} }
	rp := func(name string) Param { return Param{Name: name, T: k.t, Ref: true} }
	np := Param{Name: "n", T: Zahl}

	f := &Func{Name: p + "_f", Ret: Void}
	var h, g *Func   // helper, partner of the mutual recursion
	var extra []Expr // arguments after the observed one
	needB := false   // a second variable (passed by Referenz) is needed
	filler := &Func{Name: p + "_z", Params: []Param{{Name: "z", T: Zahl}}, Ret: Zahl, Body: one(&Return{X: &Bin{Op: "plus", L: vr("z", Zahl), R: zl(1), T: Zahl}})}

	base := shape
	switch shape {
	case "fwd-def-after", "fwd-def-before", "fwd-def-after-nothing-between":
		base = "plain"
	case "mutual-def-before":
		base = "mutual"
	case "recursive-fwd":
		base = "recursive"
	case "helper-fwd", "helper-fwd-def-before":
		base = "plain"
	}
	switch base {
	case "plain":
		f.Params = []Param{vp("w")}
		switch sm.helper {
		case "":
			f.Body = seq(D(w), deep("f nach Änderung", w))
		case "ref":
			h = &Func{Name: p + "_h", Params: []Param{rp("r")}, Ret: Void, Body: D(r)}
			f.Body = seq(one(callS(h, w)), deep("f nach h", w))
		case "val":
			h = &Func{Name: p + "_h", Params: []Param{vp("v")}, Ret: Void, Body: seq(D(v), deep("h nach Änderung", v))}
			f.Body = seq(one(callS(h, w)), deep("f nach h", w))
		}
	case "recursive": // depth 2
		extra = []Expr{zl(1)}
		switch sm.helper {
		case "": // every level changes its own parameter after the inner call returned
			f.Params = []Param{vp("w"), np}
			f.Body = seq(one(&If{Cond: pos, Then: seq(one(callS(f, w, nm1)), deep("f nach innerem Aufruf", w))}), D(w), deep("f nach Änderung", w))
		case "ref": // the function is its own helper: the by-value parameter is handed to its Referenz parameter
			f.Params = []Param{vp("w"), rp("r"), np}
			needB = true
			f.Body = seq(one(&If{Cond: pos, Then: one(callS(f, r, w, nm1)), Else: D(r)}), deep("f w", w), deep("f r", r))
		case "val": // only the innermost level changes its copy
			f.Params = []Param{vp("w"), np}
			f.Body = seq(one(&If{Cond: pos, Then: seq(one(callS(f, w, nm1)), deep("f nach innerem Aufruf", w)), Else: seq(D(w), deep("f nach Änderung", w))}))
		}
	case "mutual": // f (plain) and g (forward-declared) call each other; chain f(2) → g(1) → f(0)
		extra = []Expr{zl(2)}
		f.Params = []Param{vp("w"), np}
		g = &Func{Name: p + "_g", Ret: Void, Forward: true}
		switch sm.helper {
		case "":
			g.Params = []Param{vp("w"), np}
			f.Body = seq(one(&If{Cond: pos, Then: seq(one(callS(g, w, nm1)), deep("f nach g", w))}), D(w), deep("f nach Änderung", w))
			g.Body = seq(one(&If{Cond: pos, Then: seq(one(callS(f, w, nm1)), deep("g nach f", w))}), D(w), deep("g nach Änderung", w))
		case "ref":
			g.Params = []Param{rp("r"), np}
			f.Body = seq(one(&If{Cond: pos, Then: one(callS(g, w, nm1))}), deep("f w", w))
			g.Body = seq(D(r), one(&If{Cond: pos, Then: one(callS(f, r, nm1))}), deep("g r", r))
		case "val":
			g.Params = []Param{vp("v"), np}
			f.Body = seq(one(&If{Cond: pos, Then: one(callS(g, w, nm1))}), deep("f w", w))
			g.Body = seq(D(v), deep("g nach Änderung", v), one(&If{Cond: pos, Then: seq(one(callS(f, v, nm1)), deep("g nach f", v))}))
		}
	default:
		panic("c08 shape " + shape)
	}

	// ---- the caller
	a, b := vr(p+"_a", k.t), vr(p+"_b", k.t)
	structs := []*Type{stQ}
	var setup []Stmt   // declarations of the observed variable (global, or local of the calling function)
	var observed Expr  // what is passed
	var after [][]Stmt // further observations after the call
	switch arg {
	case "global", "local", "param":
		setup = one(&VarDecl{Name: a.Name, T: k.t, Init: k.mk(1)})
		observed = a
	case "part":
		if k.t.K == KList {
			structs = append(structs, stHalter)
			e := vr(p+"_e", stHalter)
			args := []Expr{&ListLit{T: ListOf(Text), El: []Expr{tl("x")}}, &ListLit{T: ListOf(Zahl), El: []Expr{zl(9)}}, &ListLit{T: ListOf(stQ)}}
			fname := ""
			for i, fl := range stHalter.Fields {
				if fl.T.Eq(k.t) {
					args[i], fname = k.mk(1), fl.Name
				}
			}
			setup = one(&VarDecl{Name: e.Name, T: stHalter, Init: &StructLit{T: stHalter, Args: args}})
			observed = &FieldOf{Name: fname, X: e, T: k.t}
		} else {
			l := vr(p+"_l", ListOf(k.t))
			setup = one(&VarDecl{Name: l.Name, T: l.T, Init: &ListLit{T: l.T, El: []Expr{k.mk(1), k.mk(2)}}})
			observed = &Bin{Op: "index", L: l, R: zl(1), T: k.t}
			after = append(after, deep("Aufrufer Nachbar", &Bin{Op: "index", L: l, R: zl(2), T: k.t}))
		}
	}
	var bDecl []Stmt
	if needB {
		bDecl = one(&VarDecl{Name: b.Name, T: k.t, Init: k.mk(2)})
		extra = append([]Expr{b}, extra...)
		after = append(after, deep("Aufrufer zweite Variable", b))
	}
	use := func(x Expr) []Stmt {
		return seq(deep("Aufrufer vorher", x), one(callS(f, append([]Expr{x}, extra...)...)), deep("Aufrufer nachher", x), seq(after...))
	}
	var callerDecl []Stmt // declaration of the calling function (textually after the declaration of f)
	var main []Stmt
	switch arg {
	case "global", "part":
		main = seq(setup, bDecl, use(observed))
	case "local":
		c := &Func{Name: p + "_c", Ret: Void, Body: seq(setup, bDecl, use(observed))}
		callerDecl = one(&FuncDecl{F: c})
		main = one(callS(c))
	case "param":
		q := vr("q", k.t)
		c := &Func{Name: p + "_c", Params: []Param{vp("q")}, Ret: Void, Body: seq(bDecl, use(q))}
		callerDecl = one(&FuncDecl{F: c})
		main = seq(setup, one(callS(c, a)), deep("global nach allem", a))
	}

	// ---- textual order
	decl := func(fn *Func) []Stmt {
		if fn == nil {
			return nil
		}
		return one(&FuncDecl{F: fn})
	}
	def := func(fn *Func) []Stmt { return one(&FuncDef{F: fn}) }
	var body []Stmt
	switch shape {
	case "plain", "recursive":
		body = seq(decl(h), decl(f), callerDecl, main)
	case "fwd-def-after": // the helper (or an unrelated function) stands between declaration and definition
		f.Forward = true
		between := decl(h)
		if h == nil {
			between = decl(filler)
		}
		body = seq(decl(f), between, callerDecl, main, def(f))
	case "recursive-fwd": // forward-declared and recursive, defined after the call site
		f.Forward = true
		body = seq(decl(f), decl(filler), callerDecl, main, def(f))
	case "fwd-def-after-nothing-between": // only statements (and the calling function, if any) in between
		f.Forward = true
		body = seq(decl(h), decl(f), callerDecl, main, def(f))
	case "fwd-def-before":
		f.Forward = true
		body = seq(decl(h), decl(f), decl(filler), def(f), callerDecl, main)
	case "mutual":
		body = seq(decl(g), decl(f), callerDecl, main, def(g))
	case "mutual-def-before":
		body = seq(decl(g), decl(f), def(g), callerDecl, main)
	case "helper-fwd":
		h.Forward = true
		body = seq(decl(h), decl(f), callerDecl, main, def(h))
	case "helper-fwd-def-before":
		h.Forward = true
		body = seq(decl(h), decl(f), decl(filler), def(h), callerDecl, main)
	default:
		panic("c08 shape order " + shape)
	}
	return body, structs
}

// c08DumpShapes writes the single-case program and the predicted output of every case (development aid).
func c08DumpShapes(dir string, cases []*batch.Case) {
	os.MkdirAll(dir, 0o755)
	for _, cs := range cases {
		prog := batch.ProgramOf([]*batch.Case{cs}, false)
		out, un := prog.Run()
		name := filepath.Join(dir, strings.ReplaceAll(cs.Key, ":", "__"))
		os.WriteFile(name+".ddp", []byte(prog.Source()), 0o644)
		if un == nil {
			os.WriteFile(name+".expected", []byte(out.Stdout), 0o644)
		}
	}
}
