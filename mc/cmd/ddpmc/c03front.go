package main

// Shared driver of C03 and C07: both enumerate the spaces of internal/frontspace on the real frontend
// (sacrificial workers) and apply their own oracle to every outcome. Code is shared, results are not:
// every command runs the enumeration itself and writes its own evidence.

import (
	"fmt"
	"os"
	"path/filepath"
	"sort"
	"strings"
	"sync"
	"sync/atomic"
	"time"

	"ddpmc/internal/ev"
	fs "ddpmc/internal/frontspace"
	"ddpmc/internal/pool"
	"ddpmc/internal/rx"
)

// witness: the smallest case seen for one violation key
type witness struct {
	key, what string
	size      int
	files     map[string]string
	count     int64
	caseID    string
	reportKey string // key under which the confirmed witness is reported (see confirm)
}

type frontRun struct {
	c       *ev.Ctx
	x       *fs.Executor
	scratch string
	plan    *fs.Plan

	mu    sync.Mutex
	wit   map[string]*witness
	sigs  map[string]int64 // behaviour signature -> count
	cases int64
	diags int64
}

func newFrontRun(id, tier string, budget map[string]int) (*frontRun, bool) {
	c := ev.New(id, tier)
	c.Budget(budget[tier])
	r := &frontRun{c: c, x: fs.NewExecutor(), wit: map[string]*witness{}, sigs: map[string]int64{}}
	r.scratch = rx.Scratch(strings.ToLower(id))
	plan, err := fs.NewPlan(tier, r.scratch)
	if err != nil {
		c.Broken("corpus: " + err.Error())
		return r, false
	}
	r.plan = plan
	return r, true
}

func (r *frontRun) close() {
	fs.BatchPool().Close()
	os.RemoveAll(r.scratch)
}

func caseSize(cs *fs.Case) int {
	n := len(cs.Source)
	for _, v := range cs.Extra {
		n += len(v)
	}
	if cs.Extra == nil {
		n += 100000 // corpus programs carry their whole directory: prefer self-contained witnesses
	}
	return n
}

// note records a violating case, keeping the smallest witness per key.
func (r *frontRun) note(key, what string, cs *fs.Case) {
	sz := caseSize(cs)
	r.mu.Lock()
	w := r.wit[key]
	if w == nil {
		w = &witness{key: key, size: 1 << 60}
		r.wit[key] = w
	}
	w.count++
	better := sz < w.size
	if better {
		w.size = sz // reserve, so that concurrent larger cases do not snapshot
	}
	r.mu.Unlock()
	if !better {
		return
	}
	files := cs.Files() // may read the case directory: outside the lock
	r.mu.Lock()
	if w.files == nil || sz <= w.size {
		w.files, w.what, w.size, w.caseID = files, what, sz, cs.Space+" #"+cs.ID+" "+cs.Note
	}
	r.mu.Unlock()
}

// signature accounting: distinct observable behaviours (set of diagnostic codes, flags, crash kind)
func (r *frontRun) observe(o *fs.Outcome) {
	codes := map[int]bool{}
	for _, d := range o.Resp.Diags {
		codes[d.Code*10+d.Level] = true
	}
	var cs []int
	for k := range codes {
		cs = append(cs, k)
	}
	sort.Ints(cs)
	sig := fmt.Sprint(cs, o.Resp.Faulty, o.Resp.HasModule, o.Resp.Err != "", o.Kind, o.Site)
	if len(cs) > 0 || o.Kind != "" || o.Resp.Err != "" { // only non-trivial behaviours are counted
		r.mu.Lock()
		r.sigs[sig]++
		r.mu.Unlock()
	}
	atomic.AddInt64(&r.cases, 1)
	atomic.AddInt64(&r.diags, int64(len(o.Resp.Diags)))
}

// explore runs every space of the plan; fn is the oracle.
func (r *frontRun) explore(fn func(cs *fs.Case, o *fs.Outcome)) {
	c := r.c
	for _, sp := range r.plan.Spaces {
		if c.Expired() || r.x.HangStorm() {
			why := "budget"
			if r.x.HangStorm() {
				why = "stopped after 3 hanging cases"
			}
			c.Capped(fmt.Sprintf("%s: not started, %s (%d cases)", sp.Name(), why, sp.Len()))
			continue
		}
		var ran int64
		t0 := time.Now()
		done := fs.Explore(sp, r.x, c.Expired, func(cs *fs.Case, o *fs.Outcome) {
			if o.Status == pool.Died && strings.HasPrefix(o.Log, "cannot start worker") {
				c.Broken(o.Log)
				return
			}
			atomic.AddInt64(&ran, 1)
			r.observe(o)
			fn(cs, o)
		})
		c.Add("space_"+sp.Name(), ran)
		if os.Getenv("VERIF_DEBUG") != "" {
			fmt.Fprintf(os.Stderr, "[%6.1fs] %-60s %9d cases %6.1fs  median=%v keys=%d\n", time.Since(c.Start).Seconds(), sp.Name(), ran, time.Since(t0).Seconds(), r.x.Median(), len(r.wit))
		}
		if done < sp.Len() {
			c.Capped(fmt.Sprintf("%s: %d of %d cases", sp.Name(), done, sp.Len()))
		}
	}
}

// confirm re-executes a witness 3 times from its files in a fresh directory; keyOf recomputes the
// violation keys of an outcome. The witness counts only if all 3 runs reproduce its key.
func (r *frontRun) confirm(w *witness, keysOf func(cs *fs.Case, o *fs.Outcome) map[string]string) (bool, string) {
	w.reportKey = w.key
	dir := filepath.Join(r.scratch, "confirm")
	os.RemoveAll(dir)
	rx.WriteFiles(dir, w.files)
	defer os.RemoveAll(dir)
	rounds := 3
	for k := 0; k < rounds; k++ {
		cs, cleanup, err := fs.LoadReplay(dir)
		if err != nil {
			return false, err.Error()
		}
		o := r.x.Exec(cs)
		ks := keysOf(cs, o)
		cleanup()
		_, ok := ks[w.key]
		if ok && strings.Contains(w.key, ":hang@") {
			break // a hang verdict took 3 deadlines, this round 3 more: 6 timed-out attempts are enough
		}
		if !ok && noReturnKey(w.key) {
			// "worker died" and "worker did not answer in time" are the same observation (Parse never
			// returned) at different machine loads: a slow runaway recursion is killed by the deadline
			// before it exhausts the stack. Either one reproduces the finding.
			for k, what := range ks {
				if noReturnKey(k) {
					ok = true
					if strings.Contains(w.reportKey, ":hang@") && strings.Contains(k, ":died@") {
						// the re-run shows where it dies: report under the more specific key
						w.reportKey, w.what = k, what
					}
				}
			}
		}
		if !ok {
			var got []string
			for k := range ks {
				got = append(got, k)
			}
			sort.Strings(got)
			return false, fmt.Sprintf("run %d gave %v", k+1, got)
		}
	}
	return true, ""
}

func noReturnKey(k string) bool {
	return strings.Contains(k, ":hang@") || strings.Contains(k, ":died@")
}

// report confirms and reports all witnesses (deterministic order).
func (r *frontRun) report(keysOf func(cs *fs.Case, o *fs.Outcome) map[string]string) {
	var keys []string
	for k := range r.wit {
		keys = append(keys, k)
	}
	sort.Strings(keys)
	flaky := []string{}
	counts := map[string]int64{}
	for _, k := range keys {
		w := r.wit[k]
		counts[k] = w.count
		if w.files == nil {
			continue
		}
		ok, why := r.confirm(w, keysOf)
		if !ok {
			flaky = append(flaky, k+": "+why)
			continue
		}
		r.c.Violation(w.reportKey, fmt.Sprintf("%s\nsmallest witness: %s\ncases with this key in this run: %d", w.what, w.caseID, w.count), w.files)
	}
	r.c.Set("cases_per_violation_key", counts)
	r.c.Set("flaky_not_reported", flaky)
}

func (r *frontRun) finish(rule string) int {
	c := r.c
	nd := 0
	for range r.sigs {
		nd++
	}
	c.Set("states", atomic.LoadInt64(&r.cases))
	c.Set("transitions", atomic.LoadInt64(&r.diags))
	c.Set("traces_validated_against_impl", atomic.LoadInt64(&r.cases))
	c.Set("evaluations", atomic.LoadInt64(&r.cases))
	c.Set("distinct_nontrivial", nd)
	c.Set("rule", rule)
	if r.plan != nil {
		c.Set("bounds", r.plan.Bounds)
	}
	c.Set("batches", r.x.Batches)
	c.Set("batches_redone_case_by_case", r.x.BatchesFailed)
	if os.Getenv("VERIF_DEBUG") != "" {
		fmt.Fprintln(os.Stderr, "last failed batch:", r.x.LastBatchLog)
	}
	c.Set("median_case_time_us", r.x.Median().Microseconds())
	c.Set("hang_deadline_s", r.x.Deadline().Seconds())
	return c.Finish()
}
