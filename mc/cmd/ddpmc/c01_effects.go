package main

// C01 family "effect": short-circuit evaluation and evaluation order, observed through operands with a
// visible side effect (a function that prints its mark and returns the given value) and through
// operands that would stop the program with a Laufzeitfehler if they were evaluated (index guards).
// Every truth assignment of every und/oder nesting of up to three marked operands, in expression,
// Wenn, Solange, argument and return position.

import (
	"fmt"

	"ddpmc/internal/batch"
	. "ddpmc/internal/cdm"
)

func genEffects() []*batch.Case {
	var out []*batch.Case
	n := 0
	pf := func() string { n++; return fmt.Sprintf("e%d", n) }
	// mark functions (one set per case: batch programs need unique names)
	type marks struct {
		b, z *Func
	}
	mk := func(p string) marks {
		b := &Func{Name: p + "_mw", Params: []Param{{Name: "n", T: Zahl}, {Name: "w", T: Bool}}, Ret: Bool,
			Body: seq(pr(vr("n", Zahl)), one(&Return{X: vr("w", Bool)}))}
		z := &Func{Name: p + "_mz", Params: []Param{{Name: "n", T: Zahl}, {Name: "v", T: Zahl}}, Ret: Zahl,
			Body: seq(pr(vr("n", Zahl)), one(&Return{X: vr("v", Zahl)}))}
		return marks{b, z}
	}
	mb := func(m marks, i int64, w Expr) Expr { return &Call{F: m.b, Args: []Expr{zl(i), w}} }
	mz := func(m marks, i int64, v Expr) Expr { return &Call{F: m.z, Args: []Expr{zl(i), v}} }
	bin := func(op string, l, r Expr, t *Type) Expr { return &Bin{Op: op, L: l, R: r, T: t} }
	bools := []bool{false, true}
	tf := func(b bool) string {
		if b {
			return "w"
		}
		return "f"
	}

	// (1) two operands: und, oder (short-circuit), xor (both, left to right)
	for _, op := range []string{"und", "oder", "xor"} {
		p := pf()
		m := mk(p)
		var body []Stmt
		for _, a := range bools {
			for _, b := range bools {
				body = append(body, pr(bin(op, mb(m, 1, bl(a)), mb(m, 2, bl(b)), Bool))...)
			}
		}
		out = append(out, &batch.Case{Key: "short-circuit:2:" + op, Desc: "marked operands of " + op + ", all truth assignments", Funcs: []*Func{m.b}, Body: body})
	}
	// (2) three operands, both nestings, every operator pair, every truth assignment; also negated
	for _, op1 := range []string{"und", "oder"} {
		for _, op2 := range []string{"und", "oder"} {
			for _, shape := range []string{"(ab)c", "a(bc)"} {
				for _, neg := range []bool{false, true} {
					p := pf()
					m := mk(p)
					var body []Stmt
					for _, a := range bools {
						for _, b := range bools {
							for _, c := range bools {
								x, y, z := mb(m, 1, bl(a)), mb(m, 2, bl(b)), mb(m, 3, bl(c))
								var e Expr
								if shape == "(ab)c" {
									e = bin(op2, bin(op1, x, y, Bool), z, Bool)
								} else {
									e = bin(op1, x, bin(op2, y, z, Bool), Bool)
								}
								if neg {
									e = &Un{Op: "nicht", X: e, T: Bool}
								}
								body = append(body, pr(e)...)
							}
						}
					}
					k := fmt.Sprintf("short-circuit:3:%s:%s:%s", op1, op2, shape)
					if neg {
						k += ":nicht"
					}
					out = append(out, &batch.Case{Key: k, Desc: "three marked operands, all truth assignments", Funcs: []*Func{m.b}, Body: body})
				}
			}
		}
	}
	// (3) conditional expression: only the chosen arm is evaluated
	{
		p := pf()
		m := mk(p)
		var body []Stmt
		for _, c := range bools {
			body = append(body, pr(&Ter{Op: "falls", A: mz(m, 1, zl(10)), B: mb(m, 2, bl(c)), C: mz(m, 3, zl(20)), T: Zahl})...)
			// nested in the arms
			body = append(body, pr(&Ter{Op: "falls", A: &Ter{Op: "falls", A: mz(m, 4, zl(1)), B: mb(m, 5, bl(!c)), C: mz(m, 6, zl(2)), T: Zahl}, B: mb(m, 7, bl(c)), C: mz(m, 8, zl(3)), T: Zahl})...)
		}
		out = append(out, &batch.Case{Key: "short-circuit:falls", Desc: "arms of a conditional expression", Funcs: []*Func{m.b, m.z}, Body: body})
	}
	// (4) index guards: the guarded access must not be evaluated outside the list / text
	for _, kind := range []string{"liste", "text"} {
		for ln := 0; ln <= 2; ln++ {
			p := pf()
			var cont *Var
			var init Expr
			var elem func(i Expr) Expr
			var probe Expr
			if kind == "liste" {
				cont = vr(p+"_l", ListOf(Zahl))
				l := &ListV{T: ListOf(Zahl)}
				for k := 0; k < ln; k++ {
					l.El = append(l.El, int64(7))
				}
				init = valueExpr(ListOf(Zahl), l)
				elem = func(i Expr) Expr { return bin("index", cont, i, Zahl) }
				probe = zl(7)
			} else {
				cont = vr(p+"_t", Text)
				init = tl("ää"[:2*ln])
				elem = func(i Expr) Expr { return bin("index", cont, i, Char) }
				probe = cl('ä')
			}
			body := one(&VarDecl{Name: cont.Name, T: cont.T, Init: init})
			iv := vr(p+"_i", Zahl)
			body = append(body, &VarDecl{Name: iv.Name, T: Zahl, Init: zl(0)})
			for i := int64(-1); i <= int64(ln)+1; i++ {
				body = append(body, &Assign{Target: iv, Val: zl(i)})
				inside := bin("und", bin("groesser", iv, zl(0), Bool), bin("kleinergleich", iv, &Un{Op: "laenge", X: cont, T: Zahl}, Bool), Bool)
				body = append(body, pr(bin("und", inside, eq(elem(iv), probe), Bool))...)
				outside := bin("oder", bin("kleiner", iv, zl(1), Bool), bin("groesser", iv, &Un{Op: "laenge", X: cont, T: Zahl}, Bool), Bool)
				body = append(body, pr(bin("oder", outside, eq(elem(iv), probe), Bool))...)
				body = append(body, pr(&Ter{Op: "falls", A: elem(iv), B: inside, C: probe, T: probe.Ty()})...)
			}
			out = append(out, &batch.Case{Key: fmt.Sprintf("guard:%s:len%d", kind, ln), Desc: "guarded element access at every index around the bounds", Body: body})
		}
	}
	// (5) statement positions: Wenn / Wenn aber / Solange / argument / return
	for _, op := range []string{"und", "oder"} {
		p := pf()
		m := mk(p)
		var body []Stmt
		for _, a := range bools {
			for _, b := range bools {
				body = append(body, &If{Cond: bin(op, mb(m, 1, bl(a)), mb(m, 2, bl(b)), Bool), Then: one(prs("dann" + tf(a) + tf(b))),
					Else: one(&If{Cond: bin(op, mb(m, 3, bl(b)), mb(m, 4, bl(a)), Bool), Then: one(prs("aber")), Else: one(prs("sonst"))})})
			}
		}
		out = append(out, &batch.Case{Key: "short-circuit:wenn:" + op, Desc: "marked operands in Wenn / Wenn aber conditions", Funcs: []*Func{m.b}, Body: body})

		p = pf()
		m = mk(p)
		i := vr(p+"_i", Zahl)
		body = seq(one(&VarDecl{Name: i.Name, T: Zahl, Init: zl(0)}),
			one(&While{Cond: bin(op, mb(m, 1, bin("kleiner", i, zl(2), Bool)), mb(m, 2, bin("kleiner", i, zl(3), Bool)), Bool),
				Body: seq(pr(i), one(&Compound{Op: "erhoehe", Target: i, Val: zl(1)}))}),
			one(&DoWhile{Body: seq(pr(i), one(&Compound{Op: "erhoehe", Target: i, Val: zl(1)})),
				Cond: bin(op, mb(m, 3, bin("kleiner", i, zl(5), Bool)), mb(m, 4, bin("kleiner", i, zl(6), Bool)), Bool)}))
		out = append(out, &batch.Case{Key: "short-circuit:solange:" + op, Desc: "marked operands in loop conditions, evaluated before/after every iteration", Funcs: []*Func{m.b}, Body: body})

		p = pf()
		m = mk(p)
		g := &Func{Name: p + "_g", Params: []Param{{Name: "a", T: Bool}, {Name: "b", T: Bool}}, Ret: Bool,
			Body: one(&Return{X: bin(op, mb(m, 5, vr("a", Bool)), mb(m, 6, vr("b", Bool)), Bool)})}
		body = nil
		for _, a := range bools {
			for _, b := range bools {
				body = append(body, pr(&Call{F: g, Args: []Expr{bin(op, mb(m, 1, bl(a)), mb(m, 2, bl(b)), Bool), bin(op, mb(m, 3, bl(b)), mb(m, 4, bl(a)), Bool)}})...)
			}
		}
		out = append(out, &batch.Case{Key: "short-circuit:arg+return:" + op, Desc: "marked operands in arguments and in a returned expression", Funcs: []*Func{m.b, g}, Body: body})
	}
	// (6) evaluation order of operands and arguments (left to right)
	{
		p := pf()
		m := mk(p)
		g3 := &Func{Name: p + "_g3", Params: []Param{{Name: "a", T: Zahl}, {Name: "b", T: Zahl}, {Name: "c", T: Zahl}}, Ret: Zahl,
			Body: one(&Return{X: bin("minus", bin("minus", vr("a", Zahl), vr("b", Zahl), Zahl), vr("c", Zahl), Zahl)})}
		var body []Stmt
		for _, op := range []string{"plus", "minus", "mal", "durch", "modulo", "hoch", "logund", "logoder", "logxor"} {
			t := Zahl
			if op == "durch" || op == "hoch" {
				t = Komma
			}
			body = append(body, pr(bin(op, mz(m, 1, zl(7)), mz(m, 2, zl(2)), t))...)
		}
		for _, op := range []string{"gleich", "ungleich", "kleiner", "kleinergleich", "groesser", "groessergleich"} {
			body = append(body, pr(bin(op, mz(m, 1, zl(7)), mz(m, 2, zl(2)), Bool))...)
		}
		body = append(body, pr(&Call{F: g3, Args: []Expr{mz(m, 1, zl(10)), mz(m, 2, zl(3)), mz(m, 3, zl(2))}})...)
		body = append(body, pr(bin("plus", bin("mal", mz(m, 1, zl(2)), mz(m, 2, zl(3)), Zahl), bin("mal", mz(m, 3, zl(4)), mz(m, 4, zl(5)), Zahl), Zahl))...)
		body = append(body, pr(bin("index", &ListLit{T: ListOf(Zahl), El: []Expr{mz(m, 1, zl(5)), mz(m, 2, zl(6)), mz(m, 3, zl(7))}}, mz(m, 4, zl(2)), Zahl))...)
		body = append(body, pr(&Ter{Op: "zwischen", A: mz(m, 1, zl(5)), B: mz(m, 2, zl(1)), C: mz(m, 3, zl(9)), T: Bool})...)
		out = append(out, &batch.Case{Key: "order:operands", Desc: "marked operands of arithmetic/comparison operators, arguments, list elements", Funcs: []*Func{m.z, g3}, Body: body})
	}
	return out
}
