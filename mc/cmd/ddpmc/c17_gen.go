package main

// C17 generators, part 1: the bounded universes and Duden/Listen, Duden/Sortierung.

import (
	"fmt"

	dm "ddpmc/internal/dudenmodel"
)

// ---- universes ---------------------------------------------------------------------------------------

type c17univ struct {
	tier   string
	alpha  [6][]el // element alphabet per kind
	maxLen [6]int  // list length bound per kind
}

func newUniv(tier string) *c17univ {
	u := &c17univ{tier: tier}
	u.alpha[kZ] = []el{eZ(1), eZ(2), eZ(-1)} // lists over these contain duplicates: {1, 2, 2, -1}
	u.alpha[kK] = []el{eK(0.5), eK(2), eK(-1.5)}
	u.alpha[kW] = []el{eW(true), eW(false)}
	u.alpha[kC] = []el{eC('a'), eC('ä'), eC('😀')}
	u.alpha[kT] = []el{eT(""), eT("a"), eT("ä€")}
	u.alpha[kY] = []el{eY(0), eY(65), eY(200)}
	if tier == "thorough" {
		u.maxLen = [6]int{4, 3, 3, 3, 4, 3}
	} else {
		u.maxLen = [6]int{3, 2, 2, 2, 3, 2}
	}
	return u
}

// seqs: all sequences over alpha of length 0..n, shortest first, then in alphabet order
func seqs[E any](alpha []E, n int) [][]E {
	out := [][]E{{}}
	prev := [][]E{{}}
	for l := 1; l <= n; l++ {
		var cur [][]E
		for _, p := range prev {
			for _, a := range alpha {
				cur = append(cur, append(append([]E{}, p...), a))
			}
		}
		out = append(out, cur...)
		prev = cur
	}
	return out
}

func (u *c17univ) lists(k ck) [][]el         { return seqs(u.alpha[k], u.maxLen[k]) }
func (u *c17univ) listsN(k ck, n int) [][]el { return seqs(u.alpha[k], n) }

var listKinds = []ck{kZ, kT, kK, kW, kC}

func idxClass(idx int64, n int) string {
	switch {
	case idx < 0:
		return "index<0"
	case idx == 0:
		return "index=0"
	case n == 0:
		return fmt.Sprintf("leere-Liste,index=%d", idx)
	case idx == 1 && n == 1:
		return "index=1=Länge"
	case idx == 1:
		return "index=1"
	case idx < int64(n):
		return "index-mitte"
	case idx == int64(n):
		return "index=Länge"
	case idx == int64(n)+1:
		return "index=Länge+1"
	}
	return "index>Länge+1"
}

func lenClass(n int) string {
	if n == 0 {
		return "leer"
	}
	return "nichtleer"
}

// ---- Duden/Listen --------------------------------------------------------------------------------------

func (g *c17gen) genListen(u *c17univ) {
	const M = "Listen"
	for _, k := range listKinds {
		L := u.lists(k)
		small := u.listsN(k, min(2, u.maxLen[k])) // second list argument
		E := u.alpha[k]
		_ = tyTag
		for _, l := range L {
			cl := lenClass(len(l))
			g.stmt(M, "Leere_Liste", cl, "Leere $0", []arg{A(vL(k, l))}, map[int]val{0: vL(k, dm.Leere(l))}, false)
			g.expr(M, "Ist_Leer_Liste_Ref", cl, "$0 leer ist", vW(dm.IstLeer(l)), []arg{A(vL(k, l))}, nil)
			g.expr(M, "Ist_Leer_Liste", cl, "$0 leer ist", vW(dm.IstLeer(l)), []arg{T(vL(k, l))}, nil)
			g.expr(M, "Liste_Spiegeln_Ref", cl, "$0 gespiegelt", vL(k, dm.Spiegeln(l)), []arg{A(vL(k, l))}, nil)
			g.expr(M, "Liste_Spiegeln", cl, "$0 gespiegelt", vL(k, dm.Spiegeln(l)), []arg{T(vL(k, l))}, nil)
			for _, e := range E {
				g.stmt(M, "Hinzufügen_Liste", cl, "Füge $1 an $0 an", []arg{A(vL(k, l)), A(vS(e))}, map[int]val{0: vL(k, dm.Hinzufuegen(l, e))}, false)
				g.stmt(M, "Voranstellen_Liste", cl, "Stelle $1 vor $0", []arg{A(vL(k, l)), A(vS(e))}, map[int]val{0: vL(k, dm.Voranstellen(l, e))}, false)
				g.stmt(M, "Füllen_Liste", cl, "Fülle $0 mit $1", []arg{A(vL(k, l)), A(vS(e))}, map[int]val{0: vL(k, dm.Fuellen(l, e))}, false)
				ix := dm.IndexVon(l, e)
				ic := "fehlt"
				switch {
				case ix == 1:
					ic = "an-erster-Stelle"
				case ix == int64(len(l)):
					ic = "an-letzter-Stelle"
				case ix > 0:
					ic = "in-der-Mitte"
				}
				g.expr(M, "Index_Von_Element_Ref", ic, "der Index von $1 in $0", vZ(ix), []arg{A(vL(k, l)), A(vS(e))}, nil)
				g.expr(M, "Index_Von_Element", ic, "der Index von $1 in $0", vZ(ix), []arg{T(vL(k, l)), T(vS(e))}, nil)
				g.expr(M, "Enthält_Wert_Ref", ic, "$0 $1 enthält", vW(dm.Enthaelt(l, e)), []arg{A(vL(k, l)), A(vS(e))}, nil)
				g.expr(M, "Enthält_Wert", ic, "$0 $1 enthält", vW(dm.Enthaelt(l, e)), []arg{T(vL(k, l)), T(vS(e))}, nil)
			}
			for _, o := range small {
				oc := lenClass(len(l)) + "+" + lenClass(len(o))
				g.stmt(M, "Hinzufügen_Liste_Liste", oc, "Füge $1 an $0 an", []arg{A(vL(k, l)), A(vL(k, o))}, map[int]val{0: vL(k, dm.HinzufuegenListe(l, o))}, false)
				g.stmt(M, "Voranstellen_Liste_Liste", oc, "Stelle $1 vor $0", []arg{A(vL(k, l)), A(vL(k, o))}, map[int]val{0: vL(k, dm.VoranstellenListe(l, o))}, false)
			}
			// indices -1 .. len+2
			for idx := int64(-1); idx <= int64(len(l))+2; idx++ {
				ic := idxClass(idx, len(l))
				e := E[int(idx+1)%len(E)]
				if r, d := dm.Einfuegen(l, idx, e); d == dm.Offen {
					g.skip(M, "Einfügen_Liste")
				} else {
					g.stmt(M, "Einfügen_Liste", ic, "Setze $2 an die Stelle $1 von $0", []arg{A(vL(k, l)), A(vZ(idx)), A(vS(e))}, map[int]val{0: vL(k, r)}, d == dm.Fehler)
				}
				for _, o := range [][]el{{}, {E[0], E[len(E)-1]}, {E[1], E[1]}} { // a range of one element is Einfügen_Liste
					if r, d := dm.EinfuegenBereich(l, idx, o); d == dm.Offen {
						g.skip(M, "Einfügen_Bereich_Liste")
					} else {
						g.stmt(M, "Einfügen_Bereich_Liste", ic+",Bereich-"+lenClass(len(o)), "Setze die Elemente in $2 an die Stelle $1 von $0", []arg{A(vL(k, l)), A(vZ(idx)), A(vL(k, o))}, map[int]val{0: vL(k, r)}, d == dm.Fehler)
					}
				}
				r, d := dm.LoescheElement(l, idx)
				g.stmt(M, "Lösche_Element", ic, "Lösche das Element an der Stelle $1 aus $0", []arg{A(vL(k, l)), A(vZ(idx))}, map[int]val{0: vL(k, r)}, d == dm.Fehler)
				if r, d := dm.ErsteN(l, idx); d == dm.Offen {
					g.skip(M, "Erste_N_Elemente_Liste")
				} else {
					nc := map[bool]string{true: "n=Länge", false: "n<Länge"}[idx == int64(len(l))]
					g.expr(M, "Erste_N_Elemente_Liste_Ref", nc, "die ersten $1 Elemente von $0", vL(k, r), []arg{A(vL(k, l)), A(vZ(idx))}, nil)
					g.expr(M, "Erste_N_Elemente_Liste", nc, "die ersten $1 Elemente von $0", vL(k, r), []arg{T(vL(k, l)), T(vZ(idx))}, nil)
					r2, _ := dm.LetzteN(l, idx)
					g.expr(M, "Letzten_N_Elemente_Liste_Ref", nc, "die letzten $1 Elemente von $0", vL(k, r2), []arg{A(vL(k, l)), A(vZ(idx))}, nil)
					g.expr(M, "Letzten_N_Elemente_Liste", nc, "die letzten $1 Elemente von $0", vL(k, r2), []arg{T(vL(k, l)), T(vZ(idx))}, nil)
				}
				for end := int64(-1); end <= int64(len(l))+2; end++ {
					r, d := dm.LoescheBereich(l, idx, end)
					if d == dm.Offen {
						g.skip(M, "Lösche_Bereich")
						continue
					}
					bc := "gültig"
					if d == dm.Fehler {
						if k != kZ && k != kT && len(l) > 1 {
							continue // the documented Laufzeitfehler costs one process per call: all lists for Zahl and Text, short ones for the other kinds
						}
						switch {
						case len(l) == 0:
							bc = "leere-Liste"
						case idx < 1:
							bc = "start<1"
						case idx > int64(len(l)):
							bc = "start>Länge"
						case end < 1:
							bc = "end<1"
						default:
							bc = "end>Länge"
						}
					} else if idx == 1 && end == int64(len(l)) {
						bc = "ganze-Liste"
					} else if idx == end {
						bc = "start=end"
					}
					g.stmt(M, "Lösche_Bereich", bc, "Lösche alle Elemente von $1 bis $2 aus $0", []arg{A(vL(k, l)), A(vZ(idx)), A(vZ(end))}, map[int]val{0: vL(k, r)}, d == dm.Fehler)
				}
			}
		}
	}
	// arithmetic over Zahlen and Kommazahlen Listen
	for _, k := range []ck{kZ, kK} {
		_ = tyTag
		for _, l := range u.lists(k) {
			cl := lenClass(len(l))
			if k == kZ {
				g.expr(M, "Summe_Liste", cl, "die Summe aller Elemente in $0", vZ(dm.SummeListe(zs(l))), []arg{A(vL(k, l))}, nil)
				g.expr(M, "Produkt_Liste", cl, "das Produkt aller Elemente in $0", vZ(dm.ProduktListe(zs(l))), []arg{A(vL(k, l))}, nil)
			} else {
				g.expr(M, "Summe_Liste", cl, "die Summe aller Elemente in $0", vK(dm.SummeListe(ks(l))), []arg{A(vL(k, l))}, nil)
				g.expr(M, "Produkt_Liste", cl, "das Produkt aller Elemente in $0", vK(dm.ProduktListe(ks(l))), []arg{A(vL(k, l))}, nil)
			}
			for _, o := range u.lists(k) {
				if len(o) != len(l) {
					for _, f := range []string{"Elementweise_Summe", "Elementweise_Differenz", "Elementweise_Produkt", "Elementweise_Quotient"} {
						g.skip(M, f)
					}
					continue
				}
				args := []arg{A(vL(k, l)), A(vL(k, o))}
				if k == kZ {
					a, b := zs(l), zs(o)
					r1, _ := dm.ElementweiseSumme(a, b)
					r2, _ := dm.ElementweiseDifferenz(a, b)
					r3, _ := dm.ElementweiseProdukt(a, b)
					r4, _ := dm.ElementweiseQuotient(a, b)
					g.expr(M, "Elementweise_Summe", cl, "jedes Element aus $0 mit $1 addiert", vLZ(r1), args, nil)
					g.expr(M, "Elementweise_Differenz", cl, "jedes Element aus $0 mit $1 subtrahiert", vLZ(r2), args, nil)
					g.expr(M, "Elementweise_Produkt", cl, "jedes Element aus $0 mit $1 multipliziert", vLZ(r3), args, nil)
					g.expr(M, "Elementweise_Quotient", cl, "jedes Element aus $0 mit $1 dividiert", vLK(r4), args, nil)
				} else {
					a, b := ks(l), ks(o)
					r1, _ := dm.ElementweiseSumme(a, b)
					r2, _ := dm.ElementweiseDifferenz(a, b)
					r3, _ := dm.ElementweiseProdukt(a, b)
					r4, _ := dm.ElementweiseQuotient(a, b)
					g.expr(M, "Elementweise_Summe", cl, "jedes Element aus $0 mit $1 addiert", vLK(r1), args, nil)
					g.expr(M, "Elementweise_Differenz", cl, "jedes Element aus $0 mit $1 subtrahiert", vLK(r2), args, nil)
					g.expr(M, "Elementweise_Produkt", cl, "jedes Element aus $0 mit $1 multipliziert", vLK(r3), args, nil)
					g.expr(M, "Elementweise_Quotient", cl, "jedes Element aus $0 mit $1 dividiert", vLK(r4), args, nil)
				}
			}
		}
	}
	// Buchstaben and Text Listen
	for _, l := range u.listsN(kC, u.maxLen[kC]+1) {
		cl := lenClass(len(l))
		g.expr(M, "Aneinandergehaengt_Buchstabe_Ref", cl, "$0 aneinandergehängt", vT(string(dm.Aneinandergehaengt(cs(l)))), []arg{A(vL(kC, l))}, nil)
		g.expr(M, "Aneinandergehängt_Buchstabe", cl, "$0 aneinandergehängt", vT(string(dm.Aneinandergehaengt(cs(l)))), []arg{T(vL(kC, l))}, nil)
	}
	for _, l := range u.lists(kT) {
		cl := lenClass(len(l))
		g.expr(M, "Verketten_Text_Liste_Ref", cl, "alle Texte in $0 aneinandergehängt", vT(dm.VerkettenTextListe(ts(l))), []arg{A(vL(kT, l))}, nil)
		g.expr(M, "Verketten_Text_Liste", cl, "alle Texte in $0 aneinandergehängt", vT(dm.VerkettenTextListe(ts(l))), []arg{T(vL(kT, l))}, nil)
		for _, o := range u.listsN(kT, min(u.maxLen[kT], 3)) {
			r, d := dm.ElementweiseVerketten(ts(l), ts(o))
			if d == dm.Offen {
				g.skip(M, "Elementweise_Verketten_Text")
				continue
			}
			g.expr(M, "Elementweise_Verketten_Text_Ref", cl, "jeden Text aus $0 mit $1 verkettet", vLT(r), []arg{A(vL(kT, l)), A(vL(kT, o))}, nil)
			g.expr(M, "Elementweise_Verketten_Text", cl, "jeden Text aus $0 mit $1 verkettet", vLT(r), []arg{T(vL(kT, l)), T(vL(kT, o))}, nil)
		}
	}
	// number ranges
	for a := int64(-3); a <= 4; a++ {
		for b := int64(-3); b <= 4; b++ {
			cl := map[bool]string{true: "start=ende", false: "start≠ende"}[a == b]
			if r, d := dm.AufsteigendeZahlen(a, b); d == dm.Def {
				g.expr(M, "Aufsteigende_Zahlen", cl, "eine aufsteigende Zahlen Liste von $0 bis $1", vLZ(r), []arg{A(vZ(a)), A(vZ(b))}, nil)
			} else {
				g.skip(M, "Aufsteigende_Zahlen")
			}
			if r, d := dm.AbsteigendeZahlen(a, b); d == dm.Def {
				g.expr(M, "Absteigende_Zahlen", cl, "eine absteigende Zahlen Liste von $0 bis $1", vLZ(r), []arg{A(vZ(a)), A(vZ(b))}, nil)
			} else {
				g.skip(M, "Absteigende_Zahlen")
			}
		}
	}
}

// ---- Duden/Sortierung ------------------------------------------------------------------------------------

func sortClass(n int, sorted bool) string {
	s := fmt.Sprintf("Länge=%d", n)
	if n > 5 {
		s = "Länge>5"
	}
	if sorted {
		return s + ",schon-sortiert"
	}
	return s
}

func (g *c17gen) genSortierung(u *c17univ) {
	const M = "Sortierung"
	thorough := u.tier == "thorough"
	type spec struct {
		k     ck
		alpha []el
		n     int
	}
	specs := []spec{
		{kZ, []el{eZ(1), eZ(2), eZ(3), eZ(-1)}, map[bool]int{false: 5, true: 6}[thorough]},
		{kK, []el{eK(0.5), eK(2), eK(-1.5)}, map[bool]int{false: 4, true: 5}[thorough]},
		{kY, []el{eY(0), eY(65), eY(200)}, map[bool]int{false: 4, true: 5}[thorough]},
	}
	sorted := func(k ck, l []el) []el {
		switch k {
		case kZ:
			return mapEl(dm.Sortiert(zs(l)), eZ)
		case kK:
			return mapEl(dm.Sortiert(ks(l)), eK)
		}
		return mapEl(dm.Sortiert(ys(l)), eY)
	}
	same := func(a, b []el) bool {
		for i := range a {
			if a[i] != b[i] {
				return false
			}
		}
		return true
	}
	emit := func(k ck, l []el) {
		s := sorted(k, l)
		cl := sortClass(len(l), same(s, l))
		g.stmt(M, "Quicksort_Ref", cl, "Sortiere $0", []arg{A(vL(k, l))}, map[int]val{0: vL(k, s)}, false)
		if len(l) <= 4 || thorough { // the value variant sorts a copy with the Referenz variant
			g.expr(M, "Quicksort", cl, "$0 sortiert", vL(k, s), []arg{A(vL(k, l))}, nil)
		}
	}
	for _, sp := range specs {
		for _, l := range seqs(sp.alpha, sp.n) {
			emit(sp.k, l)
		}
	}
	// longer Zahlen Listen: every permutation of 1..n and of a list with repeated values (partition bounds, stack use)
	var perm func(a []int64, i int, f func([]int64))
	perm = func(a []int64, i int, f func([]int64)) {
		if i == len(a) {
			f(a)
			return
		}
		for j := i; j < len(a); j++ {
			a[i], a[j] = a[j], a[i]
			perm(a, i+1, f)
			a[i], a[j] = a[j], a[i]
		}
	}
	bases := [][]int64{{1, 2, 3, 4, 5, 6}, {1, 2, 2, 3, 3, 3, 4}}
	if thorough {
		bases = append(bases, []int64{1, 2, 3, 4, 5, 6, 7}, []int64{1, 1, 2, 2, 3, 3, 4, 4})
	}
	for _, b := range bases {
		seen := map[string]bool{}
		perm(append([]int64{}, b...), 0, func(a []int64) {
			k := fmt.Sprint(a)
			if seen[k] {
				return
			}
			seen[k] = true
			emit(kZ, mapEl(a, eZ))
		})
	}
	// Tausche
	for _, p := range [][2]val{{vZ(1), vZ(-2)}, {vZ(3), vZ(3)}, {vT("a"), vT("ä€")}, {vT(""), vT("b")}, {vK(0.5), vK(-1.5)}, {vC('ä'), vC('😀')}, {vW(true), vW(false)},
		{vLZ([]int64{1, 2}), vLZ([]int64{})}, {vLT([]string{"a"}), vLT([]string{"", "ä€"})}} {
		g.stmt(M, "Tausche", p[0].tag(), "Tausche $0 und $1", []arg{A(p[0]), A(p[1])}, map[int]val{0: p[1], 1: p[0]}, false)
	}
}
