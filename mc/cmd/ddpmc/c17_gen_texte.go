package main

// C17 generators, part 2: Duden/Texte.

import (
	"fmt"
	"strings"

	dm "ddpmc/internal/dudenmodel"
)

func strs(alpha []rune, n int) []string {
	return mapEl(seqs(alpha, n), func(r []rune) string { return string(r) })
}

func textClass(t string) string {
	switch {
	case t == "":
		return "leerer-Text"
	case len(t) == len([]rune(t)):
		return "ASCII"
	}
	return "mehrbyte"
}

// custom adds a call block whose driver statements are written by hand
func (g *c17gen) custom(mod, fn, class, desc string, lines []string, expect string, extraMods ...string) {
	g.add(&c17call{mod: mod, fn: fn, class: class, desc: fn + ": " + desc, lines: lines, expect: expect, extraMods: extraMods})
}

func (g *c17gen) genTexte(u *c17univ) {
	const M = "Texte"
	thorough := u.tier == "thorough"
	full := []rune{'a', 'b', 'ä', '😀', ' '}
	single := strs(full, map[bool]int{false: 3, true: 4}[thorough]) // one-Text functions
	var hay []string                                                // Text argument of two-Text functions
	if thorough {
		hay = strs([]rune{'a', 'b', 'ä', '😀'}, 4)
	} else {
		hay = append(strs([]rune{'a', 'b', 'ä'}, 3), strs([]rune{'a', 'b'}, 4)[15:]...) // + the 16 texts {a,b}^4
	}
	needles := strs([]rune{'a', 'b', 'ä'}, 2)
	chars := []rune{'a', 'ä', ' ', '😀'}
	tv := func(s string) arg { return A(vT(s)) }
	tt := func(s string) arg { return T(vT(s)) }

	g.expr(M, "Leerer_Text", "-", "ein leerer Text", vT(""), nil, nil)

	idxTexts := strs([]rune{'a', 'ä', '😀'}, 3) // Text argument of the functions that also take an index / a count
	if thorough {
		idxTexts = strs([]rune{'a', 'b', 'ä', '😀'}, 4)
	}
	for _, t := range idxTexts {
		tc := textClass(t)
		n := dm.Len(t)
		// letters by position
		if c, d := dm.ErsterBuchstabe(t); d == dm.Def {
			g.expr(M, "Erster_Buchstabe", tc, "der erste Buchstabe von $0", vC(c), []arg{tv(t)}, nil)
			c2, _ := dm.LetzterBuchstabe(t)
			g.expr(M, "Letzter_Buchstabe", tc, "der letzte Buchstabe von $0", vC(c2), []arg{tv(t)}, nil)
		} else {
			g.skip(M, "Erster_Buchstabe")
			g.skip(M, "Letzter_Buchstabe")
		}
		for i := int64(-1); i <= n+2; i++ {
			ic := strings.Replace(idxClass(i, int(n)), "leere-Liste", "leerer-Text", 1)
			if c, d := dm.NterBuchstabe(i, t); d == dm.Def {
				g.expr(M, "Nter_Buchstabe", ic, "der $0 Buchstabe von $1", vC(c), []arg{A(vZ(i)), tv(t)}, nil)
			} else {
				g.skip(M, "Nter_Buchstabe")
			}
			ac := "anzahl" + map[bool]string{true: "<0", false: map[bool]string{true: ">=Länge", false: "<Länge"}[i >= n]}[i < 0]
			g.stmt(M, "Entferne_Anzahl_Vorne_Mutierend", ac, "Entferne $1 Buchstaben am Anfang von $0", []arg{tv(t), A(vZ(i))}, map[int]val{0: vT(dm.EntferneVorne(t, i))}, false)
			g.stmt(M, "Entferne_Anzahl_Hinten_Mutierend", ac, "Entferne $1 Buchstaben am Ende von $0", []arg{tv(t), A(vZ(i))}, map[int]val{0: vT(dm.EntferneHinten(t, i))}, false)
			g.expr(M, "Entferne_Anzahl_Vorne", ac, "$0 mit den ersten $1 Buchstaben entfernt", vT(dm.EntferneVorne(t, i)), []arg{tv(t), A(vZ(i))}, nil)
			g.expr(M, "Entferne_Anzahl_Hinten", ac, "$0 mit den letzten $1 Buchstaben entfernt", vT(dm.EntferneHinten(t, i)), []arg{tv(t), A(vZ(i))}, nil)
			// insert / delete by index
			for _, ins := range []string{"", "b", "ä€"} {
				if r, d := dm.InTextEinfuegen(t, i, ins); d == dm.Def {
					g.stmt(M, "Text_In_Text_Einfügen", ic, "Setze $2 an die Stelle $1 von $0", []arg{tv(t), A(vZ(i)), tv(ins)}, map[int]val{0: vT(r)}, false)
				} else {
					g.skip(M, "Text_In_Text_Einfügen")
				}
			}
			for _, ins := range []rune{'b', '€'} {
				if r, d := dm.InTextEinfuegen(t, i, string(ins)); d == dm.Def {
					g.stmt(M, "Buchstabe_In_Text_Einfügen", ic, "Setze $2 an die Stelle $1 von $0", []arg{tv(t), A(vZ(i)), A(vC(ins))}, map[int]val{0: vT(r)}, false)
				} else {
					g.skip(M, "Buchstabe_In_Text_Einfügen")
				}
			}
			if r, d := dm.LoescheText(t, i); d == dm.Def {
				g.stmt(M, "Lösche_Text", ic, "Lösche das Element an der Stelle $1 aus $0", []arg{tv(t), A(vZ(i))}, map[int]val{0: vT(r)}, false)
			} else {
				g.skip(M, "Lösche_Text")
			}
			for e := int64(-1); e <= n+2; e++ {
				if r, d := dm.LoescheTextBereich(t, i, e); d == dm.Def {
					bc := "innen"
					switch {
					case i == 1 && e == n:
						bc = "ganzer-Text"
					case i == 1:
						bc = "start=1"
					case e == n:
						bc = "end=Länge"
					}
					g.stmt(M, "Lösche_Text_Bereich", bc, "Lösche alle Elemente im Bereich von $1 bis $2 aus $0", []arg{tv(t), A(vZ(i)), A(vZ(e))}, map[int]val{0: vT(r)}, false)
				} else {
					g.skip(M, "Lösche_Text_Bereich")
				}
			}
			// padding
			for _, z := range []rune{' ', 'ä'} {
				pc := map[bool]string{true: "endlänge>Länge", false: "endlänge<=Länge"}[i > n]
				g.expr(M, "Polster_Links", pc, "$0 mit $2 $1 links gepolstert", vT(dm.PolsterLinks(t, z, i)), []arg{tv(t), A(vC(z)), A(vZ(i))}, nil)
				g.expr(M, "Polster_Rechts", pc, "$0 mit $2 $1 rechts gepolstert", vT(dm.PolsterRechts(t, z, i)), []arg{tv(t), A(vC(z)), A(vZ(i))}, nil)
			}
		}
	}
	for _, t := range single {
		tc := textClass(t)
		// one Text and one Buchstabe
		for _, z := range chars {
			zc := map[bool]string{true: "kommt-vor", false: "kommt-nicht-vor"}[dm.EnthaeltBuchstabe(t, z)]
			g.stmt(M, "Trim_Anfang", zc, "Entferne alle $1 vor $0", []arg{tv(t), A(vC(z))}, map[int]val{0: vT(dm.TrimAnfang(t, z))}, false)
			g.expr(M, "Trim_Anfang_Wert", zc, "$0 mit allen $1 davor entfernt", vT(dm.TrimAnfang(t, z)), []arg{tv(t), A(vC(z))}, nil)
			g.stmt(M, "Trim_Ende", zc, "Entferne alle $1 nach $0", []arg{tv(t), A(vC(z))}, map[int]val{0: vT(dm.TrimEnde(t, z))}, false)
			g.expr(M, "Trim_Ende_Wert", zc, "$0 mit allen $1 danach entfernt", vT(dm.TrimEnde(t, z)), []arg{tv(t), A(vC(z))}, nil)
			g.stmt(M, "Trim", zc, "Entferne alle $1 vor und nach $0", []arg{tv(t), A(vC(z))}, map[int]val{0: vT(dm.Trim(t, z))}, false)
			g.expr(M, "Trim_Wert", zc, "$0 mit allen $1 davor und danach entfernt", vT(dm.Trim(t, z)), []arg{tv(t), A(vC(z))}, nil)
			g.expr(M, "Text_Enthält_Buchstabe", zc, "$0 $1 enthält", vW(dm.EnthaeltBuchstabe(t, z)), []arg{tv(t), A(vC(z))}, nil)
			g.expr(M, "Text_Anzahl_Buchstabe", zc, "die Anzahl der $1 Buchstaben in $0", vZ(dm.AnzahlBuchstabe(t, z)), []arg{tv(t), A(vC(z))}, nil)
			g.expr(M, "Beginnt_Mit_Buchstabe", zc, "$1 am Anfang von $0 steht", vW(dm.BeginntMitBuchstabe(t, z)), []arg{tv(t), A(vC(z))}, nil)
			g.expr(M, "Endet_Mit_Buchstabe", zc, "$1 am Ende von $0 steht", vW(dm.EndetMitBuchstabe(t, z)), []arg{tv(t), A(vC(z))}, nil)
			g.stmt(M, "Buchstabe_An_Text_Fügen", tc, "Füge $1 an $0 an", []arg{tv(t), A(vC(z))}, map[int]val{0: vT(t + string(z))}, false)
			g.stmt(M, "Buchstabe_Vor_Text_Stellen", tc, "Stelle $1 vor $0", []arg{tv(t), A(vC(z))}, map[int]val{0: vT(string(z) + t)}, false)
			g.stmt(M, "Fülle_Text", zc, "Fülle $0 mit $1", []arg{tv(t), A(vC(z))}, map[int]val{0: vT(dm.FuelleText(t, z))}, false)
			g.expr(M, "Text_Index_Von_Buchstabe_Ref", zc, "der Index von $1 in $0", vZ(dm.IndexVonBuchstabe(t, z)), []arg{tv(t), A(vC(z))}, nil)
			g.expr(M, "Text_Index_Von_Buchstabe", zc, "der Index von $1 in $0", vZ(dm.IndexVonBuchstabe(t, z)), []arg{tt(t), T(vC(z))}, nil)
			if r, d := dm.Spalte(t, z); d == dm.Def {
				g.expr(M, "Spalte", zc, "$0 an $1 gespalten", vLT(r), []arg{tv(t), A(vC(z))}, nil)
			} else {
				g.skip(M, "Spalte")
			}
		}
		// one Text
		g.stmt(M, "Text_Leeren", tc, "Leere $0", []arg{tv(t)}, map[int]val{0: vT("")}, false)
		g.expr(M, "Buchstaben_TextRef_BuchstabenListe", tc, "die Buchstaben in $0", vLC(dm.Buchstaben(t)), []arg{tv(t)}, nil)
		g.expr(M, "Buchstaben_Text_BuchstabenListe", tc, "die Buchstaben in $0", vLC(dm.Buchstaben(t)), []arg{tt(t)}, nil)
		g.expr(M, "Buchstaben_TextRef_TextListe", tc, "die Buchstaben in $0 als Text Liste", vLT(dm.BuchstabenAlsTexte(t)), []arg{tv(t)}, nil)
		g.expr(M, "Buchstaben_Text_TextListe", tc, "die Buchstaben in $0 als Text Liste", vLT(dm.BuchstabenAlsTexte(t)), []arg{tt(t)}, nil)
		g.expr(M, "Ist_Text_Leer_Ref", tc, "$0 leer ist", vW(t == ""), []arg{tv(t)}, nil)
		g.expr(M, "Ist_Text_Leer", tc, "$0 leer ist", vW(t == ""), []arg{tt(t)}, nil)
		g.expr(M, "Text_Zu_ByteListe", tc, "die Bytes von $0", vLY(dm.TextZuBytes(t)), []arg{tv(t)}, nil)
		g.expr(M, "Text_Zu_ByteListe_Wert", tc, "die Bytes von $0", vLY(dm.TextZuBytes(t)), []arg{tt(t)}, nil)
		g.expr(M, "ByteListe_Zu_Text", tc, "die Bytes $0 als Text", vT(t), []arg{A(vLY([]byte(t)))}, nil)
		g.expr(M, "ByteListe_Zu_Text_Wert", tc, "die Bytes $0 als Text", vT(t), []arg{T(vLY([]byte(t)))}, nil)
	}

	// two Texte
	for _, t := range hay {
		tc := textClass(t)
		for _, s := range needles {
			sc := map[bool]string{true: "suchText-leer", false: fmt.Sprintf("suchText-Länge=%d", dm.Len(s))}[s == ""]
			found, _ := dm.IndexVonText(t, s)
			if s != "" {
				sc += map[bool]string{true: ",kommt-vor", false: ",kommt-nicht-vor"}[found > 0]
			}
			args := []arg{tv(t), tv(s)}
			if r, d := dm.EnthaeltText(t, s); d == dm.Def {
				g.expr(M, "Text_Enthält_Text", sc, "$0 $1 enthält", vW(r), args, nil)
			} else {
				g.skip(M, "Text_Enthält_Text")
			}
			if r, d := dm.AnzahlText(t, s); d == dm.Def {
				g.expr(M, "Text_Anzahl_Text", sc, "die Anzahl der Subtexte $1 in $0", vZ(r), args, nil)
				r2, _ := dm.AnzahlTextNichtUeberlappend(t, s)
				g.expr(M, "Text_Anzahl_Text_Nicht_Überlappend", sc, "die Anzahl der nicht überlappenden Subtexte $1 in $0", vZ(r2), args, nil)
			} else {
				g.skip(M, "Text_Anzahl_Text")
				g.skip(M, "Text_Anzahl_Text_Nicht_Überlappend")
			}
			if r, d := dm.BeginntMitText(t, s); d == dm.Def {
				g.expr(M, "Beginnt_Mit_Text", sc, "$1 am Anfang von $0 steht", vW(r), args, nil)
				r2, _ := dm.EndetMitText(t, s)
				g.expr(M, "Endet_Mit_Text", sc, "$1 am Ende von $0 steht", vW(r2), args, nil)
			} else {
				g.skip(M, "Beginnt_Mit_Text")
				g.skip(M, "Endet_Mit_Text")
			}
			if r, d := dm.IndexVonText(t, s); d == dm.Def {
				g.expr(M, "Text_Index_Von_Text", sc, "der Index von $1 in $0", vZ(r), args, nil)
			} else {
				g.skip(M, "Text_Index_Von_Text")
			}
			if r, d := dm.SpalteText(t, s); d == dm.Def {
				g.expr(M, "Spalte_Text", sc, "$0 an $1 gespalten", vLT(r), args, nil)
			} else {
				g.skip(M, "Spalte_Text")
			}
			if r, d := dm.FindeSubtext(t, s); d == dm.Def {
				g.expr(M, "Finde_Subtext", sc, "alle Indizes vom Subtext $1 in $0", vLZ(r), args, nil)
			} else {
				g.skip(M, "Finde_Subtext")
			}
			g.stmt(M, "Text_An_Text_Fügen", tc, "Füge $1 an $0 an", args, map[int]val{0: vT(t + s)}, false)
			g.stmt(M, "Text_Vor_Text_Stellen", tc, "Stelle $1 vor $0", args, map[int]val{0: vT(s + t)}, false)
		}
	}
	// distances and comparison: all pairs of short Texte
	pairAlpha := []rune{'a', 'b', 'ä'}
	pairs := strs(pairAlpha, 3)
	if thorough {
		pairs = strs([]rune{'a', 'b', 'ä', '😀'}, 3)
	}
	for _, a := range pairs {
		for _, b := range pairs {
			la, lb := dm.Len(a), dm.Len(b)
			pc := map[bool]string{true: "gleiche-Länge", false: "ungleiche-Länge"}[la == lb]
			args := []arg{tv(a), tv(b)}
			g.expr(M, "Hamming_Distanz", pc, "die Hamming-Distanz zwischen $0 und $1", vZ(dm.HammingDistanz(a, b)), args, nil)
			g.expr(M, "Levenshtein_Distanz", pc+map[bool]string{true: ",ein-Text-leer", false: ""}[la == 0 || lb == 0], "die Levenshtein-Distanz zwischen $0 und $1", vZ(dm.LevenshteinDistanz(a, b)), args, nil)
			sign, exact := dm.VergleicheText(a, b)
			lines := []string{fmt.Sprintf("Der Text a0 ist %s.", textLit(a)), fmt.Sprintf("Der Text a1 ist %s.", textLit(b)), "Die Zahl r ist (a0 mit a1 verglichen)."}
			exp := ""
			vc := "erster-Unterschied"
			if exact {
				lines = append(lines, `ZeigeZ "=" r.`)
				exp = fmt.Sprintf("=%d\n", sign)
				switch {
				case sign == 0:
					vc = "gleich"
				case la == 0 || lb == 0:
					vc = "Präfix,leerer-Text"
				default:
					vc = "Präfix"
				}
			} else {
				lines = append(lines, `ZeigeW ">0:" (r größer als 0 ist).`, `ZeigeW "<0:" (r kleiner als 0 ist).`)
				exp = fmt.Sprintf(">0:%s\n<0:%s\n", eW(sign > 0).render(), eW(sign < 0).render())
			}
			lines = append(lines, `ZeigeT "a0=" a0.`, `ZeigeT "a1=" a1.`)
			exp += "a0=" + eT(a).render() + "\na1=" + eT(b).render() + "\n"
			g.custom(M, "Vergleiche_Text", vc, textLit(a)+" mit "+textLit(b)+" verglichen", lines, exp)
		}
	}
	// Text_Ist_Zahl
	for _, t := range strs([]rune{'1', '0', '+', '-', 'a'}, map[bool]int{false: 3, true: 4}[thorough]) {
		if r, d := dm.TextIstZahl(t); d == dm.Def {
			cl := map[bool]string{true: "Zahl", false: "keine-Ziffer"}[r]
			if r && (t[0] == '+' || t[0] == '-') {
				cl = "Zahl-mit-Vorzeichen"
			}
			g.expr(M, "Text_Ist_Zahl_Ref", cl, "$0 in eine Zahl umgewandelt werden kann", vW(r), []arg{tv(t)}, nil)
			g.expr(M, "Text_Ist_Zahl", cl, "$0 in eine Zahl umgewandelt werden kann", vW(r), []arg{tt(t)}, nil)
		} else {
			g.skip(M, "Text_Ist_Zahl")
		}
	}
	// case mapping
	for _, t := range strs([]rune{'a', 'B', 'ä', 'Ö', '1', 'ß', '😀'}, map[bool]int{false: 3, true: 4}[thorough]) {
		tc := textClass(t)
		if r, d := dm.Grossschreiben(t); d == dm.Def {
			g.expr(M, "Großschreiben_Wert", tc, "$0 groß geschrieben", vT(r), []arg{tv(t)}, nil)
			g.stmt(M, "Großschreiben", tc, "Schreibe $0 groß", []arg{tv(t)}, map[int]val{0: vT(r)}, false)
		} else {
			g.skip(M, "Großschreiben")
		}
		r, _ := dm.Kleinschreiben(t)
		g.expr(M, "Kleinschreiben_Wert", tc, "$0 klein geschrieben", vT(r), []arg{tv(t)}, nil)
		g.stmt(M, "Kleinschreiben", tc, "Schreibe $0 klein", []arg{tv(t)}, map[int]val{0: vT(r)}, false)
	}
	// joining
	seps := []rune{'-', 'ä'}
	for _, z := range seps {
		for _, l := range u.lists(kT) {
			g.expr(M, "Verbinden_Text", lenClass(len(l)), "$0 mit dem Trennzeichen $1 zum Text verbunden", vT(dm.Verbinden(ts(l), z)), []arg{A(vL(kT, l)), A(vC(z))}, nil)
		}
		for _, l := range u.lists(kZ) {
			g.expr(M, "Verbinden_Zahl", lenClass(len(l)), "$0 mit dem Trennzeichen $1 zum Text verbunden", vT(dm.Verbinden(mapEl(zs(l), dm.ZahlAlsText), z)), []arg{A(vL(kZ, l)), A(vC(z))}, nil)
		}
		for _, l := range u.lists(kK) {
			g.expr(M, "Verbinden_Kommazahl", lenClass(len(l)), "$0 mit dem Trennzeichen $1 zum Text verbunden", vT(dm.Verbinden(mapEl(ks(l), fmtK), z)), []arg{A(vL(kK, l)), A(vC(z))}, nil)
		}
		for _, l := range u.lists(kC) {
			g.expr(M, "Verbinden_Buchstabe", lenClass(len(l)), "$0 mit dem Trennzeichen $1 zum Text verbunden", vT(dm.Verbinden(mapEl(cs(l), func(c rune) string { return string(c) }), z)), []arg{A(vL(kC, l)), A(vC(z))}, nil)
		}
		for _, l := range u.listsN(kW, 3) {
			g.expr(M, "Verbinden_Wahrheitswert", lenClass(len(l)), "$0 mit dem Trennzeichen $1 zum Text verbunden", vT(dm.Verbinden(mapEl(l, el.render), z)), []arg{A(vL(kW, l)), A(vC(z))}, nil)
		}
	}
	// splitting by a set of letters, words
	wsTexts := strs([]rune{'a', 'ä', ' ', '\n', '\t'}, map[bool]int{false: 3, true: 4}[thorough])
	for _, t := range wsTexts {
		tc := textClass(t)
		w := dm.TextWorte(t)
		wc := tc + fmt.Sprintf(",%d-Worte", min(len(w), 2))
		if strings.TrimLeft(t, " \n\t") != t {
			wc += ",Leerzeichen-am-Anfang"
		}
		if strings.TrimRight(t, " \n\t") != t {
			wc += ",Leerzeichen-am-Ende"
		}
		g.expr(M, "Text_Worte_Ref", wc, "die Worte in $0", vLT(w), []arg{tv(t)}, nil)
		g.expr(M, "Text_Worte", wc, "die Worte in $0", vLT(w), []arg{tt(t)}, nil)
	}
	mengen := [][]rune{{' '}, {'ä', ' '}, {'a'}, {}}
	for _, t := range strs([]rune{'a', 'ä', ' '}, map[bool]int{false: 3, true: 4}[thorough]) {
		for _, m := range mengen {
			r, d := dm.SpalteMenge(t, m)
			if d != dm.Def {
				g.skip(M, "Spalten_Spaltmenge_Text")
				continue
			}
			mc := textClass(t) + fmt.Sprintf(",%d-Teile", min(len(r), 2))
			if len(t) > 0 && strings.ContainsRune(string(m), []rune(t)[0]) {
				mc += ",Trenner-am-Anfang"
			}
			if len(t) > 0 && strings.ContainsRune(string(m), []rune(t)[len([]rune(t))-1]) {
				mc += ",Trenner-am-Ende"
			}
			const al = "$0 anhand der Spaltmenge $1 gespalten"
			g.expr(M, "Spalten_Spaltmenge_Text_Ref", mc, al, vLT(r), []arg{tv(t), A(vLC(m))}, nil)
			g.expr(M, "Spalten_Spaltmenge_Text", mc, al, vLT(r), []arg{tt(t), T(vLC(m))}, nil)
			g.expr(M, "Spalten_Spaltmenge_Text_RefMenge", mc, al, vLT(r), []arg{tt(t), A(vLC(m))}, nil)
			g.expr(M, "Spalten_SpaltmengeText_Text", mc, al, vLT(r), []arg{tv(t), tv(string(m))}, nil)
		}
	}
}
