package main

// C09 — calls resolve to the longest type-matching alias; arguments bind by name (shape S).
//
// Bounded exhaustive enumeration of (alias population, call site) pairs. Every pair is parsed by
// the REAL frontend (worker "c09": parser.Parse with resolver + typechecker) and the call found in
// the AST (callee declaration, Args map, UN_NOT wrapping, diagnostics) is compared with the
// admissible set computed by internal/aliasmodel, which is written from the property text.
// Second observation point: for every population an executable in which each body prints its
// name and arguments. Operators: c09_ops.go.

import (
	"encoding/json"
	"fmt"
	"os"
	"path/filepath"
	"sort"
	"strconv"
	"strings"
	"sync"
	"sync/atomic"
	"time"

	am "ddpmc/internal/callmodel"
	"ddpmc/internal/ev"
	"ddpmc/internal/par"
	"ddpmc/internal/pool"
	"ddpmc/internal/rx"
)

var (
	c09Once sync.Once
	c09P    *pool.Pool
)

func c09Pool_() *pool.Pool {
	c09Once.Do(func() { c09P = pool.New("c09", 0) })
	return c09P
}

// c09Do sends one request; a timeout or a dead worker is retried on a fresh worker with a long limit.
func c09Do(q *c09Req) (c09Resp, error) {
	var resp c09Resp
	st, log := c09Pool_().Do(q, &resp, 120*time.Second)
	if st != pool.OK {
		resp = c09Resp{}
		st, log = c09Pool_().Do(q, &resp, 600*time.Second)
	}
	if st != pool.OK {
		return resp, fmt.Errorf("worker %v: %s", st, lastLines(log, 5))
	}
	if len(resp.Out) != len(q.Tails)+len(q.Full) {
		return resp, fmt.Errorf("worker answered %d of %d programs", len(resp.Out), len(q.Tails)+len(q.Full))
	}
	return resp, nil
}

func lastLines(s string, n int) string {
	l := strings.Split(strings.TrimSpace(s), "\n")
	if len(l) > n {
		l = l[len(l)-n:]
	}
	return strings.Join(l, " | ")
}

// ---- rendering of observed nodes ----

func c09Render(n *c09Node) string {
	if n == nil {
		return "<nil>"
	}
	switch n.K {
	case "int", "id", "bool", "float":
		return n.N
	case "str":
		return "\"" + n.N + "\""
	case "group":
		return "(" + c09Render(n.X[0]) + ")"
	case "un":
		if n.N == "unäres minus" {
			return "-" + c09Render(n.X[0])
		}
		return n.N + " " + c09Render(n.X[0])
	case "bin":
		return c09Render(n.X[0]) + " " + n.N + " " + c09Render(n.X[1])
	case "call", "struct":
		var ks []string
		for k := range n.A {
			ks = append(ks, k)
		}
		sort.Strings(ks)
		var as []string
		for _, k := range ks {
			as = append(as, k+"="+c09Render(n.A[k]))
		}
		return n.K + " " + n.N + "{" + strings.Join(as, ", ") + "}"
	}
	return "<" + n.K + " " + n.N + ">"
}

// c09Find returns the call / struct literal whose first token is at (line, col), and whether it
// is wrapped in the UN_NOT of a negated alias.
func c09Find(n *c09Node, line, col uint) (*c09Node, bool) {
	if n == nil {
		return nil, false
	}
	if n.K == "un" && n.N == "nicht" && n.L == line && n.C == col && len(n.X) == 1 && n.X[0] != nil && n.X[0].K == "call" && n.X[0].L == line && n.X[0].C == col {
		return n.X[0], true
	}
	if (n.K == "call" || n.K == "struct") && n.L == line && n.C == col {
		return n, false
	}
	for _, x := range n.X {
		if r, neg := c09Find(x, line, col); r != nil {
			return r, neg
		}
	}
	var ks []string
	for k := range n.A {
		ks = append(ks, k)
	}
	sort.Strings(ks)
	for _, k := range ks {
		if r, neg := c09Find(n.A[k], line, col); r != nil {
			return r, neg
		}
	}
	if n.Ovl != nil {
		return c09Find(n.Ovl, line, col)
	}
	return nil, false
}

// ---- one call site ----

const (
	formStmt    = 0 // <call>.
	formOperand = 1 // Die Variable rN ist <call>.
	formNested  = 2 // Schreibe (<call>) auf eine Zeile.  (end-to-end programs)
)

var c09FormName = []string{"stmt", "operand", "nested"}

type c09Case struct {
	seq  []int
	form int
	line uint
	col  uint
}

func c09Stmt_(form int, n int, call string) (text string, col uint) {
	switch form {
	case formOperand:
		p := fmt.Sprintf("Die Variable r%d ist ", n)
		return p + call + ".\n", uint(len(p) + 1)
	case formNested:
		p := "Schreibe ("
		return p + call + ") auf eine Zeile.\n", uint(len(p) + 1)
	}
	return call + ".\n", 1
}

type c09Judgement struct {
	kind   string // "" = conforms
	what   string
	class  string // signature for distinct_nontrivial
	adm    int
	match  int
	unspec bool
	exact  bool // some admissible alias has exactly the length of the call
}

// c09Judge compares what the frontend did at one call site with the model.
// stmts: the statements of that line; nerr: error diagnostics attributable to the line; diag: first of them.
func c09Judge(w *c09World, us []c09Unit, cs c09Case, stmts []c09Stmt, nerr int, diag string) (j c09Judgement) {
	units := make([]am.Unit, len(cs.seq))
	for i, k := range cs.seq {
		units[i] = us[k].Unit
	}
	v := am.Resolve(w.aliases, units)
	if v.Unspecified != "" {
		j.unspec = true
		return
	}
	j.adm, j.match = len(v.Admissible), len(v.Matching)
	{ // class signature
		var m, a []string
		for _, x := range v.Matching {
			m = append(m, x.Key())
		}
		for _, c := range v.Admissible {
			s := c.Alias.Key()
			if c.Alias.Negated {
				s = "!" + s
			}
			if c.Alias.Decl.Struct {
				s = "K" + s
			}
			a = append(a, s)
		}
		sort.Strings(m)
		sort.Strings(a)
		j.class = strings.Join(m, "|") + "=>" + strings.Join(a, "|")
	}
	for _, c := range v.Admissible {
		if len(c.Alias.Pattern) == len(cs.seq) {
			j.exact = true
		}
	}
	var obs *c09Node
	neg := false
	for _, s := range stmts {
		if obs, neg = c09Find(s.E, cs.line, cs.col); obs != nil {
			break
		}
	}
	if len(v.Admissible) == 0 {
		if obs != nil && nerr == 0 {
			j.kind = "resolved-ill-typed-without-diagnostic"
			j.what = fmt.Sprintf("no declaration is admissible, but the call resolved to %s without any diagnostic", c09Render(obs))
		}
		return
	}
	admNames := func() string {
		var s []string
		for _, c := range v.Admissible {
			s = append(s, c.Alias.Decl.Name+" \""+c.Alias.String()+"\"")
		}
		return strings.Join(s, " or ")
	}
	if obs == nil {
		j.kind = "wrong-callee"
		j.what = fmt.Sprintf("expected a call of %s, the frontend resolved no call here (first diagnostic: %s)", admNames(), diag)
		return
	}
	sameDecl, sameNeg := false, false
	exact := false
	for _, c := range v.Admissible {
		if c.Alias.Decl.Name != obs.N || c.Alias.Decl.Struct != (obs.K == "struct") {
			continue
		}
		sameDecl = true
		if c.Alias.Negated != neg {
			continue
		}
		sameNeg = true
		if len(c.Alias.Pattern) == len(cs.seq) {
			exact = true
		}
		ok := len(obs.A) == len(c.Binding)
		for name, idx := range c.Binding {
			if a, has := obs.A[name]; !has || c09Render(a) != us[cs.seq[idx]].render {
				ok = false
			}
		}
		if ok {
			if exact && nerr > 0 {
				j.kind = "wrong-callee"
				j.what = fmt.Sprintf("the call of %s is admissible and complete, but the frontend rejected it: %s", admNames(), diag)
			}
			return
		}
	}
	switch {
	case !sameDecl:
		j.kind = "wrong-callee"
		j.what = fmt.Sprintf("expected %s, resolved to %s", admNames(), c09Render(obs))
	case !sameNeg:
		j.kind = "missing-negation"
		j.what = fmt.Sprintf("expected %s (negated alias: %v), observed negation wrapper: %v on %s", admNames(), !neg, neg, c09Render(obs))
	default:
		j.kind = "wrong-binding"
		var exp []string
		for _, c := range v.Admissible {
			if c.Alias.Decl.Name == obs.N {
				var bs []string
				for name, idx := range c.Binding {
					bs = append(bs, name+"="+us[cs.seq[idx]].render)
				}
				sort.Strings(bs)
				exp = append(exp, "{"+strings.Join(bs, ", ")+"}")
			}
		}
		j.what = fmt.Sprintf("callee %s is right, arguments bound as %s, expected %s", obs.N, c09Render(obs), strings.Join(exp, " or "))
	}
	return
}

// ---- running programs ----

type c09Prog struct {
	w      *c09World
	dir    string // directory holding m.ddp ("" = no imported module)
	header string
	from   uint
}

func c09NewProg(w *c09World, print bool, scratch string) *c09Prog {
	h, mod := w.header(print)
	p := &c09Prog{w: w, header: h, from: uint(strings.Count(h, "\n") + 1)}
	p.dir = "/nonexistent/c09"
	if mod != "" {
		p.dir = filepath.Join(scratch, "p"+ev_safe(w.pop.id()+w.sfx))
		rx.WriteFiles(p.dir, map[string]string{"m.ddp": mod})
	}
	return p
}

func ev_safe(s string) string {
	r := strings.NewReplacer("(", "_", ")", "_", ",", "", "+", "-", "@", "_")
	return r.Replace(s)
}

// lineInfo splits one program's answer by source line.
type c09Lines struct {
	stmts map[uint][]c09Stmt
	nerr  map[uint]int
	first map[uint]string
	head  []string // error diagnostics before the call statements or in another file
}

func c09Split(o *c09Out, from uint, mainFile string) c09Lines {
	l := c09Lines{stmts: map[uint][]c09Stmt{}, nerr: map[uint]int{}, first: map[uint]string{}}
	for _, s := range o.Stmts {
		l.stmts[s.Line] = append(l.stmts[s.Line], s)
	}
	for _, d := range o.Diags {
		if d.Level != 2 {
			continue
		}
		if d.File != mainFile || d.L1 < from {
			l.head = append(l.head, d.String())
			continue
		}
		l.nerr[d.L1]++
		if l.nerr[d.L1] == 1 {
			l.first[d.L1] = d.String()
		}
	}
	return l
}

// c09RunBatch parses header + all call statements in ONE program and judges every case.
func c09RunBatch(p *c09Prog, us []c09Unit, sites [][]int, forms []int) (cases []c09Case, js []c09Judgement, src string, err error) {
	var sb strings.Builder
	line := p.from
	n := 0
	for _, s := range sites {
		call := c09SiteText(us, s)
		for _, f := range forms {
			n++
			t, col := c09Stmt_(f, n, call)
			sb.WriteString(t)
			cases = append(cases, c09Case{seq: s, form: f, line: line, col: col})
			line++
		}
	}
	main := filepath.Join(p.dir, "main.ddp")
	src = p.header + sb.String()
	t0 := time.Now()
	resp, e := c09Do(&c09Req{File: main, Header: p.header, Tails: []string{sb.String()}, FromLine: p.from})
	if e != nil {
		return cases, nil, src, e
	}
	if os.Getenv("C09_BENCHPROG") != "" {
		fmt.Println("roundtrip", time.Since(t0), "worker parse", time.Duration(resp.Ns))
		defer func() { fmt.Println("incl. judge", time.Since(t0)) }()
	}
	o := &resp.Out[0]
	if o.Panic != "" {
		return cases, nil, src, fmt.Errorf("PANIC %s at %s", o.Panic, o.Site)
	}
	l := c09Split(o, p.from, main)
	if len(l.head) > 0 {
		return cases, nil, src, fmt.Errorf("HEADER %s", l.head[0])
	}
	js = make([]c09Judgement, len(cases))
	for i, cs := range cases {
		js[i] = c09Judge(p.w, us, cs, l.stmts[cs.line], l.nerr[cs.line], l.first[cs.line])
	}
	return
}

// c09RunSingle parses one program per case (header + that one statement); every error diagnostic
// of the parse counts for the case.
func c09RunSingle(p *c09Prog, us []c09Unit, cases []c09Case) (js []c09Judgement, srcs []string, err error) {
	tails := make([]string, len(cases))
	single := make([]c09Case, len(cases))
	for i, cs := range cases {
		t, col := c09Stmt_(cs.form, 1, c09SiteText(us, cs.seq))
		tails[i] = t
		single[i] = c09Case{seq: cs.seq, form: cs.form, line: p.from, col: col}
		srcs = append(srcs, p.header+t)
	}
	main := filepath.Join(p.dir, "main.ddp")
	resp, e := c09Do(&c09Req{File: main, Header: p.header, Tails: tails, FromLine: p.from})
	if e != nil {
		return nil, srcs, e
	}
	js = make([]c09Judgement, len(cases))
	for i := range cases {
		o := &resp.Out[i]
		if o.Panic != "" {
			js[i] = c09Judge(p.w, us, single[i], nil, 1, "frontend panicked: "+o.Panic+" at "+o.Site)
			continue
		}
		l := c09Split(o, p.from, main)
		nerr, first := l.nerr[p.from], l.first[p.from]
		for ln, k := range l.nerr {
			if ln != p.from {
				nerr += k
				if first == "" {
					first = l.first[ln]
				}
			}
		}
		if len(l.head) > 0 {
			nerr += len(l.head)
			if first == "" {
				first = l.head[0]
			}
		}
		js[i] = c09Judge(p.w, us, single[i], l.stmts[p.from], nerr, first)
	}
	return
}

// ---- the check ----

type c09Family struct {
	name      string
	pops      []c09Pop
	maxLen    int  // call sites: every sequence of 1..maxLen units that starts with foo
	nonFooLen int  // and every sequence of 1..nonFooLen units that does not (0 = none)
	single    bool // additionally one program per (population, complete well-typed call site)
	e2e       bool
	stmtOnly  bool // statement position only (default: statement and operand position)
}

func c09PopsFrom(pool []c09Entry, minK, maxK int, fixed ...c09Entry) []c09Pop {
	var out []c09Pop
	c09Subsets(len(pool), minK, maxK, func(idx []int) {
		p := c09Pop{}
		for _, i := range idx {
			p = append(p, pool[i])
		}
		p = append(p, fixed...)
		out = append(out, p)
	})
	return out
}

func c09Families(tier string) []c09Family {
	core := c09Pool(c09Sigs2(false))
	mid := c09Pool(c09Sigs2(false)[:7])
	wide := c09Pool(c09Sigs2(true))
	small := c09SmallPool()
	tiny := small[:14]
	neg := c09NegPool()
	var neg4, negShort []c09Entry
	for _, e := range neg {
		if e.pat == patN4 {
			neg4 = append(neg4, e)
		} else {
			negShort = append(negShort, e)
		}
	}
	str := c09StructPool()
	var fs []c09Family
	add := func(name string, pops []c09Pop, maxLen, nonFooLen int, single, e2e bool) {
		fs = append(fs, c09Family{name, pops, maxLen, nonFooLen, single, e2e, false})
	}
	withMasks := func(pops []c09Pop) []c09Pop {
		var out []c09Pop
		for _, p := range pops {
			out = append(out, c09Masks(p)...)
		}
		return out
	}
	with := func(fixed []c09Entry, others []c09Pop) []c09Pop {
		var out []c09Pop
		for _, f := range fixed {
			for _, o := range others {
				out = append(out, append(append(c09Pop{}, o...), f))
			}
		}
		return out
	}
	if tier == "quick" {
		add("<=1-of-wide", c09PopsFrom(wide, 0, 1), 4, 3, true, true)
		add("2-of-mid", c09PopsFrom(mid, 2, 2), 4, 0, true, false)
		add("3-of-tiny", c09PopsFrom(tiny, 3, 3), 4, 0, false, false)
		fs[len(fs)-1].stmtOnly = true
		add("negated+<=1-of-core", with(negShort, c09PopsFrom(core, 0, 1)), 4, 0, true, true)
		add("negated5+<=1-of-tiny", with(neg4, c09PopsFrom(tiny, 0, 1)), 5, 0, true, true)
		add("constructor+<=1-of-core", with(str, c09PopsFrom(core, 0, 1)), 4, 0, true, true)
		add("imported:<=2-of-tiny", withMasks(c09PopsFrom(tiny, 1, 2)), 4, 0, false, true)
	} else {
		stmtOnly := func() { fs[len(fs)-1].stmtOnly = true }
		add("<=1-of-wide", c09PopsFrom(wide, 0, 1), 5, 4, true, true)
		add("2-of-core", c09PopsFrom(core, 2, 2), 4, 0, true, true)
		add("3-of-small", c09PopsFrom(small, 3, 3), 4, 0, true, true)
		add("negated+<=1-of-core", with(negShort, c09PopsFrom(core, 0, 1)), 4, 0, true, true)
		add("negated5+<=1-of-core", with(neg4, c09PopsFrom(core, 0, 1)), 5, 0, true, true)
		add("constructor+<=1-of-core", with(str, c09PopsFrom(core, 0, 1)), 4, 0, true, true)
		add("imported:<=2-of-small", withMasks(c09PopsFrom(small, 1, 2)), 4, 0, false, true)
		add("negated+constructor+<=1-of-small", with(negShort, with(str, c09PopsFrom(small, 0, 1))), 4, 0, false, true)
		add("2-of-small", c09PopsFrom(small, 2, 2), 5, 0, false, false)
		add("3-of-mid", c09PopsFrom(mid, 3, 3), 4, 0, false, false)
		stmtOnly()
		add("4-of-small", c09PopsFrom(small, 4, 4), 4, 0, false, false)
		stmtOnly()
		add("2-of-wide", c09PopsFrom(wide, 2, 2), 4, 0, false, false)
		stmtOnly()
		add("negated+2-of-mid", with(negShort, c09PopsFrom(mid, 2, 2)), 4, 0, false, false)
		stmtOnly()
		add("constructor+2-of-mid", with(str, c09PopsFrom(mid, 2, 2)), 4, 0, false, false)
		stmtOnly()
		add("imported:3-of-small", withMasks(c09PopsFrom(small, 3, 3)), 4, 0, false, false)
		stmtOnly()
		add("negated5+2-of-small", with(neg4, c09PopsFrom(small, 2, 2)), 5, 0, false, false)
		stmtOnly()
	}
	return fs
}

type c09Run struct {
	c       *ev.Ctx
	scratch string
	mu      sync.Mutex
	classes map[string]int64
	kinds   map[string]int64
	unspec  int64
}

func (r *c09Run) note(js []c09Judgement) {
	r.mu.Lock()
	for _, j := range js {
		if j.match > 0 {
			r.classes[j.class]++
		}
		if j.unspec {
			r.unspec++
		}
	}
	r.mu.Unlock()
}

// report confirms a suspected violation three times in a program of its own and reports it.
func (r *c09Run) report(p *c09Prog, us []c09Unit, cs c09Case, j c09Judgement, rebatch func() (c09Judgement, string, error)) {
	var last c09Judgement
	var src string
	same := true
	for k := 0; k < 3; k++ {
		js, srcs, err := c09RunSingle(p, us, []c09Case{cs})
		if err != nil {
			r.c.Broken("confirmation run failed: " + err.Error())
			return
		}
		if k > 0 && (js[0].kind != last.kind || js[0].what != last.what) {
			same = false
		}
		last, src = js[0], srcs[0]
	}
	if !same {
		r.c.Add("unstable_not_reported", 1)
		return
	}
	files := map[string]string{}
	batch := false
	if last.kind == "" {
		// only visible among the other call statements of the batch program: must be stable there
		if rebatch == nil {
			r.c.Add("suspects_not_reproduced", 1)
			return
		}
		for k := 0; k < 2; k++ {
			j2, bsrc, err := rebatch()
			if err != nil || j2.kind != j.kind || j2.what != j.what {
				r.c.Add("suspects_not_reproduced", 1)
				return
			}
			src = bsrc
		}
		last, batch = j, true
		files["NOTE.txt"] = "the deviation shows only when the call statement is preceded by the other call statements of main.ddp (line " + fmt.Sprint(cs.line) + ")\n"
	}
	site := c09SiteText(us, cs.seq)
	key := fmt.Sprintf("C09:%s:%s:%s", last.kind, p.w.pop.id(), site)
	if cs.form != formStmt {
		key += ":" + c09FormName[cs.form]
	}
	units := make([]am.Unit, len(cs.seq))
	for i, k := range cs.seq {
		units[i] = us[k].Unit
	}
	v := am.Resolve(p.w.aliases, units)
	files["main.ddp"] = src
	if _, mod := p.w.header(false); mod != "" {
		files["m.ddp"] = mod
	}
	files["model_verdict.txt"] = "call tokens: " + site + "\n" + v.Describe(units)
	files["observed.txt"] = last.what + "\n"
	cj, _ := json.Marshal(c09ReplayCase{Pop: p.w.pop.toJSON(), Sfx: p.w.sfx, Seq: cs.seq, Form: cs.form, Line: cs.line, Batch: batch})
	files["case.json"] = string(cj)
	r.c.Violation(key, fmt.Sprintf("population %s, call `%s` (%s position): %s", p.w.pop.id(), site, c09FormName[cs.form], last.what), files)
	r.mu.Lock()
	r.kinds[last.kind]++
	r.mu.Unlock()
}

type c09EntryJSON struct {
	Pat      int   `json:"pat"`
	Tys      []int `json:"tys"`
	Strukt   bool  `json:"struct,omitempty"`
	Imported bool  `json:"imported,omitempty"`
}

type c09ReplayCase struct {
	Pop   []c09EntryJSON `json:"pop"`
	Sfx   string         `json:"sfx,omitempty"`
	Seq   []int          `json:"seq"`
	Form  int            `json:"form"`
	Line  uint           `json:"line"`
	Batch bool           `json:"batch,omitempty"`
}

func (p c09Pop) toJSON() []c09EntryJSON {
	var out []c09EntryJSON
	for _, e := range p {
		out = append(out, c09EntryJSON{e.pat, e.tys, e.strukt, e.imported})
	}
	return out
}

func c09PopFromJSON(j []c09EntryJSON) c09Pop {
	var p c09Pop
	for _, e := range j {
		p = append(p, c09Entry{pat: e.Pat, tys: e.Tys, strukt: e.Strukt, imported: e.Imported})
	}
	return p
}

func runC09(tier string) int {
	c := ev.New("C09", tier)
	c.Budget(map[string]int{"quick": 280, "thorough": 2300}[tier])
	r := &c09Run{c: c, scratch: rx.Scratch("c09"), classes: map[string]int64{}, kinds: map[string]int64{}}
	defer os.RemoveAll(r.scratch)
	defer c09Pool_().Close()

	fams := c09Families(tier)
	only := os.Getenv("C09_ONLY") // development aid: alias | e2e | ops
	if only == "ops" {
		fams = nil
	}
	famStats := map[string]any{}
	var e2ePops []*c09World
	seenPop := map[string]bool{}
	for _, f := range fams {
		t0 := time.Now()
		var worlds []*c09World
		dup := 0
		for _, p := range f.pops {
			w := c09Build(p, "")
			if !w.valid {
				dup++
				continue
			}
			worlds = append(worlds, w)
		}
		c.Add("excluded_duplicate_alias_populations", int64(dup))
		if n, err := strconv.Atoi(os.Getenv("C09_MAXPOPS")); err == nil && n > 0 && len(worlds) > n {
			// development aid (smoke runs): every k-th population only; the run is reported as not exhaustive
			step := len(worlds) / n
			var sub []*c09World
			for i := 0; i < len(worlds); i += step {
				sub = append(sub, worlds[i])
			}
			c.Capped(fmt.Sprintf("C09_MAXPOPS: family %s reduced from %d to %d populations", f.name, len(worlds), len(sub)))
			worlds = sub
		}
		sitesFoo := c09Sites(f.maxLen, 0, false)
		var sitesOther [][]int
		if f.nonFooLen > 0 {
			sitesOther = c09Sites(f.nonFooLen, 0, true)
		}
		var pairs, singles, done int64
		var mu sync.Mutex
		// one task = one population x one chunk of call sites (one program); the last chunk of a
		// population counts it as done
		type task struct {
			w     *c09World
			p     *c09Prog
			sites [][]int
			left  *int32
		}
		const chunk = 410
		var tasks []task
		all := append(append([][]int{}, sitesFoo...), sitesOther...)
		for _, w := range worlds {
			p := c09NewProg(w, false, r.scratch)
			n := int32((len(all) + chunk - 1) / chunk)
			left := n
			for i := 0; i < len(all); i += chunk {
				j := i + chunk
				if j > len(all) {
					j = len(all)
				}
				tasks = append(tasks, task{w, p, all[i:j], &left})
			}
		}
		forms := []int{formStmt, formOperand}
		if f.stmtOnly {
			forms = forms[:1]
		}
		if only == "e2e" {
			tasks = nil
			done = int64(len(worlds))
		}
		par.Each(tasks, 0, func(_ int, t task) {
			if c.Expired() {
				return
			}
			w, p := t.w, t.p
			us := w.units()
			var wellTyped []c09Case
			cases, js, src, err := c09RunBatch(p, us, t.sites, forms)
			if err != nil {
				// a panic or a rejected header: look at every case on its own
				if strings.HasPrefix(err.Error(), "HEADER") {
					c.Broken(fmt.Sprintf("population %s: declarations rejected: %s", w.pop.id(), err))
					return
				}
				if !strings.HasPrefix(err.Error(), "PANIC") {
					c.Broken(fmt.Sprintf("population %s: %s", w.pop.id(), err))
					return
				}
				c.Add("batches_with_frontend_panic", 1)
				js2, _, err2 := c09RunSingle(p, us, cases)
				if err2 != nil {
					c.Broken(fmt.Sprintf("population %s: %s", w.pop.id(), err2))
					return
				}
				js, src = js2, ""
			}
			r.note(js)
			for i, j := range js {
				if j.kind != "" {
					i := i
					var rebatch func() (c09Judgement, string, error)
					if src != "" {
						rebatch = func() (c09Judgement, string, error) {
							_, js3, src3, err3 := c09RunBatch(p, us, t.sites, forms)
							if err3 != nil {
								return c09Judgement{}, "", err3
							}
							return js3[i], src3, nil
						}
					}
					r.report(p, us, cases[i], j, rebatch)
				}
				if j.exact {
					wellTyped = append(wellTyped, cases[i])
				}
			}
			if f.single && len(wellTyped) > 0 {
				js, _, err := c09RunSingle(p, us, wellTyped)
				if err != nil {
					c.Broken(fmt.Sprintf("population %s: %s", w.pop.id(), err))
					return
				}
				for i, j := range js {
					if j.kind != "" {
						r.report(p, us, wellTyped[i], j, nil)
					}
				}
			}
			mu.Lock()
			pairs += int64(len(cases))
			if f.single {
				singles += int64(len(wellTyped))
			}
			mu.Unlock()
			if atomic.AddInt32(t.left, -1) == 0 {
				atomic.AddInt64(&done, 1)
			}
		})
		if done < int64(len(worlds)) {
			c.Capped(fmt.Sprintf("family %s: %d of %d populations", f.name, done, len(worlds)))
		}
		c.Add("populations", done)
		c.Add("pairs_batch", pairs)
		c.Add("pairs_single_program", singles)
		famStats[f.name] = map[string]any{"populations": done, "of": len(worlds), "excluded_duplicate_alias": dup, "call_sites_per_population": (len(sitesFoo) + len(sitesOther)) * len(forms), "max_call_len": f.maxLen, "pairs": pairs, "pairs_in_own_program": singles, "wall_s": int(time.Since(t0).Seconds())}
		if f.e2e {
			for _, w := range worlds {
				if !seenPop[w.pop.id()] {
					seenPop[w.pop.id()] = true
					e2ePops = append(e2ePops, w)
				}
			}
		}
	}
	c.Set("families", famStats)
	if only == "" || only == "ops" {
		c09Ops(r, tier)
	}
	if only == "" || only == "e2e" {
		c09E2E(r, e2ePops, tier)
	}

	c.Add("excluded_unspecified", r.unspec)
	for _, ex := range []struct {
		pop  c09Pop
		site []int
	}{
		{c09Pop{{pat: patP1, tys: []int{tyZR}}, {pat: patP1, tys: []int{tyZ}}}, []int{0, 5}},                           // foo x
		{c09Pop{{pat: patP1, tys: []int{tyZ}}, {pat: patP5, tys: []int{tyZ, tyX}}}, []int{0, 8, 2, 4}},                 // foo "s" mit -1
		{c09Pop{{pat: patP3, tys: []int{tyT, tyT}}, {pat: patN1, tys: []int{tyZ}}}, []int{0, 7, 1}},                    // foo (x plus 2) bar
		{c09Pop{{pat: patP4, tys: []int{tyZ, tyZ}}, {pat: patP1, tys: []int{tyT}, imported: true}}, []int{0, 3, 2, 6}}, // foo 1 mit t
	} {
		w := c09Build(ex.pop, "")
		us := w.units()
		units := make([]am.Unit, len(ex.site))
		for i, k := range ex.site {
			units[i] = us[k].Unit
		}
		c.Sample(map[string]any{"population": w.pop.id(), "call": c09SiteText(us, ex.site), "model": strings.Split(strings.TrimSpace(am.Resolve(w.aliases, units).Describe(units)), "\n")})
	}
	nd := len(r.classes)
	c.Set("distinct_nontrivial", nd)
	ev09 := c.Get("pairs_batch") + c.Get("pairs_single_program") + c.Get("e2e_call_sites") + c.Get("operator_applications")
	c.Set("evaluations", ev09)
	c.Set("states", c.Get("populations")+c.Get("operator_overload_sets"))
	c.Set("transitions", ev09)
	c.Set("traces_validated_against_impl", ev09)
	c.Set("violations_by_kind", r.kinds)
	c.Set("rule", "state = one alias population (or one operator overload set) in scope; transition = one call site (operator application) parsed by the real frontend and compared with aliasmodel; distinct_nontrivial = distinct (set of prefix-matching alias keys => admissible alias keys) signatures with at least one matching alias")
	c.Set("bounds", map[string]any{
		"alias_vocabulary":    "foo bar mit <a> <b>",
		"patterns":            "foo <a> | foo <a> bar | foo <a> <b> | foo <a> mit <b> | foo <b> mit <a>; negated: foo <a> <!bar> | foo <!mit> <a> <b> | foo <a> <!bar> mit <b>",
		"parameter_types":     "Zahl, Text, Zahlen Referenz, Text Referenz, T (generic), Zahlen Liste",
		"call_vocabulary":     "foo bar mit 1 -1 x t (x plus 2) \"s\" 2",
		"call_positions":      "statement, initialiser of a Variable, (end-to-end: parenthesised argument of Schreibe)",
		"population_families": "see coverage.families",
	})
	c.Assume("a placeholder stands for one argument: a literal, a name, a negative literal or a parenthesised group; keywords (mit) are not arguments",
		"an undeclared name (foo, bar used as argument) has no type; call sites whose outcome depends on whether it may stand for a type parameter are excluded (excluded_unspecified)",
		"two generic candidates are not ordered by the NUMBER of generic parameters (the text only says non-generic before generic): both are admissible; if ordering by that number would select a candidate with fewer Referenz parameters the case is excluded (excluded_unspecified)",
		"populations in which two aliases have the same words and parameter types are rejected by the frontend (C20) and excluded",
		"when no declaration is admissible the frontend may still build a call node as long as it reports an error; what follows the longest match is not judged",
		"generic operator overloads on purely built-in operand types are documented as never selected; excluded_unspecified")
	return c.Finish()
}

func replayC09(dir string) int {
	if _, err := os.Stat(filepath.Join(dir, "opcase.json")); err == nil {
		return c09ReplayOp(dir)
	}
	if _, err := os.Stat(filepath.Join(dir, "e2ecase.json")); err == nil {
		return c09ReplayE2E(dir)
	}
	b, err := os.ReadFile(filepath.Join(dir, "case.json"))
	if err != nil {
		fmt.Println(err)
		return 2
	}
	var rc c09ReplayCase
	if err := json.Unmarshal(b, &rc); err != nil {
		fmt.Println(err)
		return 2
	}
	src, err := os.ReadFile(filepath.Join(dir, "main.ddp"))
	if err != nil {
		fmt.Println(err)
		return 2
	}
	defer c09Pool_().Close()
	w := c09Build(c09PopFromJSON(rc.Pop), rc.Sfx)
	us := w.units()
	abs, _ := filepath.Abs(filepath.Join(dir, "main.ddp"))
	// the call statement is the line recorded in the case (own program: the last line)
	lines := strings.Split(strings.TrimRight(string(src), "\n"), "\n")
	line := uint(len(lines))
	if rc.Batch {
		line = rc.Line
	}
	_, col := c09Stmt_(rc.Form, 1, "")
	if rc.Form == formOperand {
		col = uint(strings.Index(lines[line-1], " ist ") + 6)
	}
	resp, e := c09Do(&c09Req{File: abs, Header: string(src), Tails: []string{""}, FromLine: 1})
	if e != nil {
		fmt.Println("infrastructure:", e)
		return 2
	}
	o := &resp.Out[0]
	l := c09Split(o, 1, abs)
	nerr, first := 0, ""
	if rc.Batch {
		nerr, first = l.nerr[line], l.first[line]
	} else {
		for ln, k := range l.nerr {
			nerr += k
			if first == "" {
				first = l.first[ln]
			}
		}
		nerr += len(l.head)
	}
	if o.Panic != "" {
		nerr, first = nerr+1, "frontend panicked: "+o.Panic
	}
	cs := c09Case{seq: rc.Seq, form: rc.Form, line: line, col: col}
	j := c09Judge(w, us, cs, l.stmts[line], nerr, first)
	units := make([]am.Unit, len(cs.seq))
	for i, k := range cs.seq {
		units[i] = us[k].Unit
	}
	fmt.Printf("call `%s` at line %d col %d\n%s", c09SiteText(us, rc.Seq), line, col, am.Resolve(w.aliases, units).Describe(units))
	for _, s := range l.stmts[line] {
		fmt.Println("observed:", s.Kind, c09Render(s.E))
	}
	for _, d := range o.Diags {
		fmt.Println("  ", d.String())
	}
	if j.kind != "" {
		fmt.Printf("VIOLATION property=C09 replay=%s\n  %s: %s\n", dir, j.kind, j.what)
		return 1
	}
	fmt.Println("C09 replay: property holds on this case")
	return 0
}

func init() { checks["C09"] = check{runC09, replayC09} }
