package main

// C05 — compiled programs release every heap block exactly once, stating its true size (shape S +
// run-time monitor). The ownership matrix  value kind × ownership role × exit path  is enumerated
// completely; every program is executed with (a) the allocator ledger (--wrap=ddp_reallocate) and
// (b) the AddressSanitizer build of runtime+stdlib; stdout must still equal the cdm prediction.

import (
	"fmt"
	"path/filepath"
	"regexp"
	"strings"

	"ddpmc/internal/batch"
	. "ddpmc/internal/cdm"
	"ddpmc/internal/ev"
	"ddpmc/internal/rx"
)

type heapKind struct {
	name    string
	t       *Type
	mk      func(i int) Expr        // a fresh temporary, content depends on i
	digest  func(e Expr) []Stmt     // prints something that depends on the whole value
	structs []*Type
	aliases []*Type
}

var zReihe = &Type{K: KList, Elem: Zahl, Alias: "ZahlenReihe"}

func heapKinds() []heapKind {
	txt := func(i int) Expr {
		return &Bin{Op: "verkettet", L: tl("tä€"), R: &Cast{X: zl(int64(i)), T: Text}, T: Text}
	}
	zlst := func(i int) Expr { return &ListLit{T: ListOf(Zahl), El: []Expr{zl(int64(i)), zl(2), zl(3)}} }
	tlst := func(i int) Expr { return &ListLit{T: ListOf(Text), El: []Expr{txt(i), tl(""), txt(i + 1)}} }
	ein := func(i int) Expr { return &StructLit{T: stQ, Args: []Expr{txt(i), zlst(i), byl(uint8(i))}} }
	dl := func(e Expr) []Stmt { return pr(&Un{Op: "laenge", X: e, T: Zahl}) }
	return []heapKind{
		{"Text", Text, txt, func(e Expr) []Stmt { return pr(e) }, nil, nil},
		{"ZahlenListe", ListOf(Zahl), zlst, func(e Expr) []Stmt {
			return seq(dl(e), pr(&Bin{Op: "index", L: e, R: zl(1), T: Zahl}))
		}, nil, nil},
		{"TextListe", ListOf(Text), tlst, func(e Expr) []Stmt {
			return seq(dl(e), pr(&Bin{Op: "index", L: e, R: zl(3), T: Text}))
		}, nil, nil},
		{"Kombination", stQ, ein, func(e Expr) []Stmt {
			return seq(pr(&FieldOf{Name: "name", X: e, T: Text}), pr(&Un{Op: "laenge", X: &FieldOf{Name: "werte", X: e, T: ListOf(Zahl)}, T: Zahl}))
		}, []*Type{stQ}, nil},
		{"KombinationenListe", ListOf(stQ), func(i int) Expr { return &ListLit{T: ListOf(stQ), El: []Expr{ein(i), ein(i + 1)}} }, func(e Expr) []Stmt {
			return seq(dl(e), pr(&FieldOf{Name: "name", X: &Bin{Op: "index", L: e, R: zl(2), T: stQ}, T: Text}))
		}, []*Type{stQ}, nil},
		{"VariableMitText", Any, func(i int) Expr { return &Cast{X: txt(i), T: Any} }, func(e Expr) []Stmt { return pr(&Cast{X: e, T: Text}) }, nil, nil},
		{"VariableMitKombination", Any, func(i int) Expr { return &Cast{X: ein(i), T: Any} }, func(e Expr) []Stmt {
			return pr(&FieldOf{Name: "name", X: &Cast{X: e, T: stQ}, T: Text})
		}, []*Type{stQ}, nil},
	}
}

// a role uses the value kind in one ownership position; it returns statements + helper functions
type heapRole struct {
	name string
	mk   func(p string, k heapKind) ([]Stmt, []*Func)
}

func heapRoles() []heapRole {
	v := func(p, n string, t *Type) *Var { return vr(p+"_"+n, t) }
	decl := func(x *Var, e Expr) Stmt { return &VarDecl{Name: x.Name, T: x.T, Init: e} }
	idFn := func(p string, k heapKind) *Func {
		return &Func{Name: p + "_id", Params: []Param{{Name: "w", T: k.t}}, Ret: k.t, Body: one(&Return{X: vr("w", k.t)})}
	}
	sinkFn := func(p string, k heapKind) *Func {
		return &Func{Name: p + "_sink", Params: []Param{{Name: "w", T: k.t}}, Ret: Void, Body: k.digest(vr("w", k.t))}
	}
	return []heapRole{
		{"init-from-temp", func(p string, k heapKind) ([]Stmt, []*Func) {
			a := v(p, "a", k.t)
			return seq(one(decl(a, k.mk(1))), k.digest(a)), nil
		}},
		{"init-from-var", func(p string, k heapKind) ([]Stmt, []*Func) {
			a, b := v(p, "a", k.t), v(p, "b", k.t)
			return seq(one(decl(a, k.mk(1))), one(decl(b, a)), k.digest(b), k.digest(a)), nil
		}},
		{"assign-temp-over-value", func(p string, k heapKind) ([]Stmt, []*Func) {
			a := v(p, "a", k.t)
			return seq(one(decl(a, k.mk(1))), one(&Assign{Target: a, Val: k.mk(2)}), one(&Assign{Target: a, Val: k.mk(3)}), k.digest(a)), nil
		}},
		{"assign-var-over-value", func(p string, k heapKind) ([]Stmt, []*Func) {
			a, b := v(p, "a", k.t), v(p, "b", k.t)
			return seq(one(decl(a, k.mk(1))), one(decl(b, k.mk(2))), one(&Assign{Target: a, Val: b}), one(&Assign{Target: a, Val: a}), k.digest(a), k.digest(b)), nil
		}},
		{"value-arg-temp", func(p string, k heapKind) ([]Stmt, []*Func) {
			f := sinkFn(p, k)
			return one(&ExprStmt{X: &Call{F: f, Args: []Expr{k.mk(1)}}}), []*Func{f}
		}},
		{"value-arg-var", func(p string, k heapKind) ([]Stmt, []*Func) {
			f := sinkFn(p, k)
			a := v(p, "a", k.t)
			return seq(one(decl(a, k.mk(1))), one(&ExprStmt{X: &Call{F: f, Args: []Expr{a}}}), k.digest(a)), []*Func{f}
		}},
		// the callee changes its by-value parameter: the caller's variable must keep its blocks (no double free,
		// no leak of the replaced part), whatever the optimiser thinks of the parameter
		{"value-arg-var-callee-overwrites", func(p string, k heapKind) ([]Stmt, []*Func) {
			w := vr("w", k.t)
			f := &Func{Name: p + "_ovw", Params: []Param{{Name: "w", T: k.t}}, Ret: Void, Body: seq(one(&Assign{Target: w, Val: k.mk(7)}), k.digest(w))}
			a := v(p, "a", k.t)
			return seq(one(decl(a, k.mk(1))), one(&ExprStmt{X: &Call{F: f, Args: []Expr{a}}}), k.digest(a)), []*Func{f}
		}},
		{"value-arg-var-callee-mutates-part", func(p string, k heapKind) ([]Stmt, []*Func) {
			w := vr("w", k.t)
			var mut []Stmt
			switch k.name {
			case "Text":
				mut = one(&Assign{Target: &Bin{Op: "index", L: w, R: zl(1), T: Char}, Val: cl('Z')})
			case "ZahlenListe":
				mut = one(&Assign{Target: &Bin{Op: "index", L: w, R: zl(1), T: Zahl}, Val: zl(99)})
			case "TextListe":
				mut = one(&Assign{Target: &Bin{Op: "index", L: w, R: zl(1), T: Text}, Val: &Bin{Op: "verkettet", L: tl("neu"), R: tl("ä"), T: Text}})
			case "Kombination":
				mut = seq(one(&Assign{Target: &FieldOf{Name: "name", X: w, T: Text}, Val: &Bin{Op: "verkettet", L: tl("neu"), R: tl("ä"), T: Text}}),
					one(&Assign{Target: &FieldOf{Name: "werte", X: w, T: ListOf(Zahl)}, Val: &ListLit{T: ListOf(Zahl), El: []Expr{zl(8), zl(9)}}}))
			case "KombinationenListe":
				mut = one(&Assign{Target: &FieldOf{Name: "name", X: &Bin{Op: "index", L: w, R: zl(2), T: stQ}, T: Text}, Val: &Bin{Op: "verkettet", L: tl("neu"), R: tl("ä"), T: Text}})
			default: // a Variable has no parts: a second overwrite with another held type
				mut = seq(one(&Assign{Target: w, Val: &Cast{X: zl(5), T: Any}}), one(&Assign{Target: w, Val: k.mk(8)}))
			}
			f := &Func{Name: p + "_part", Params: []Param{{Name: "w", T: k.t}}, Ret: Void, Body: seq(mut, k.digest(w))}
			a := v(p, "a", k.t)
			return seq(one(decl(a, k.mk(1))), one(&ExprStmt{X: &Call{F: f, Args: []Expr{a}}}), k.digest(a), one(&ExprStmt{X: &Call{F: f, Args: []Expr{a}}}), k.digest(a)), []*Func{f}
		}},
		// growth across every capacity boundary: element appended / prepended / list ∘ list at each length 0..13, so that a
		// copy of one element too many (or too few) meets the end of the block at least once
		// a character of a Text is replaced by one of every UTF-8 width (1..4 bytes) at every position of a text that
		// holds one character of every width: the buffer is kept, shrunk or re-allocated, and every release must
		// state the size the block really has (seeded change C05-text-widening-frees-with-new-cap)
		{"char-width-change", func(p string, k heapKind) ([]Stmt, []*Func) {
			if k.name != "Text" && k.name != "Kombination" {
				return nil, nil
			}
			a := v(p, "a", k.t)
			var tgt Expr = a
			out := []Stmt{decl(a, k.mk(1))}
			if k.name == "Kombination" {
				tgt = &FieldOf{Name: "name", X: a, T: Text}
			}
			for _, r := range []rune{'x', 'ö', '₤', '😁'} { // all 16 (old width, new width) transitions
				out = append(out, &Assign{Target: tgt, Val: tl("aä€😀b")})
				for i := 1; i <= 4; i++ {
					out = append(out, &Assign{Target: &Bin{Op: "index", L: tgt, R: zl(int64(i)), T: Char}, Val: cl(r)})
				}
				out = append(out, k.digest(a)...)
			}
			return out, nil
		}},
		{"grow-across-capacity", func(p string, k heapKind) ([]Stmt, []*Func) {
			if k.name != "ZahlenListe" && k.name != "TextListe" {
				return nil, nil
			}
			el := func(i int) Expr {
				if k.name == "ZahlenListe" {
					return zl(int64(i))
				}
				return &Bin{Op: "verkettet", L: tl("e€"), R: &Cast{X: zl(int64(i)), T: Text}, T: Text}
			}
			a, b, c2 := v(p, "a", k.t), v(p, "b", k.t), v(p, "c", k.t)
			out := []Stmt{decl(a, &ListLit{T: k.t}), decl(b, &ListLit{T: k.t}), decl(c2, &ListLit{T: k.t})}
			for i := 1; i <= 13; i++ {
				out = append(out, &Assign{Target: a, Val: &Bin{Op: "verkettet", L: a, R: el(i), T: k.t}}) // append
				out = append(out, &Assign{Target: b, Val: &Bin{Op: "verkettet", L: el(i), R: b, T: k.t}}) // prepend
				out = append(out, &Assign{Target: c2, Val: &Bin{Op: "verkettet", L: el(i), R: a, T: k.t}}) // scalar before a list of every length
				out = append(out, k.digest(c2)...)
				out = append(out, &Assign{Target: c2, Val: &Bin{Op: "verkettet", L: a, R: b, T: k.t}}) // list ∘ list
				out = append(out, k.digest(c2)...)
			}
			return seq(out, k.digest(a), k.digest(b)), nil
		}},
		{"ref-arg", func(p string, k heapKind) ([]Stmt, []*Func) {
			f := &Func{Name: p + "_set", Params: []Param{{Name: "w", T: k.t, Ref: true}}, Ret: Void, Body: one(&Assign{Target: vr("w", k.t), Val: k.mk(7)})}
			a := v(p, "a", k.t)
			return seq(one(decl(a, k.mk(1))), one(&ExprStmt{X: &Call{F: f, Args: []Expr{a}}}), k.digest(a)), []*Func{f}
		}},
		{"return-value-used", func(p string, k heapKind) ([]Stmt, []*Func) {
			f := idFn(p, k)
			a := v(p, "a", k.t)
			return seq(one(decl(a, &Call{F: f, Args: []Expr{k.mk(1)}})), k.digest(a)), []*Func{f}
		}},
		{"return-value-discarded", func(p string, k heapKind) ([]Stmt, []*Func) {
			f := idFn(p, k)
			a := v(p, "a", k.t)
			return seq(one(decl(a, k.mk(1))), one(&ExprStmt{X: &Call{F: f, Args: []Expr{a}}}), one(&ExprStmt{X: &Call{F: f, Args: []Expr{k.mk(2)}}}), k.digest(a)), []*Func{f}
		}},
		{"return-local", func(p string, k heapKind) ([]Stmt, []*Func) {
			f := &Func{Name: p + "_mk", Ret: k.t, Body: seq(one(&VarDecl{Name: "lokal", T: k.t, Init: k.mk(4)}), one(&VarDecl{Name: "andere", T: k.t, Init: k.mk(5)}), one(&Return{X: vr("lokal", k.t)}))}
			return k.digest(&Call{F: f}), []*Func{f}
		}},
		{"discarded-temp-in-condition", func(p string, k heapKind) ([]Stmt, []*Func) {
			a := v(p, "a", k.t)
			return seq(one(decl(a, k.mk(1))), one(&If{Cond: eq(k.mk(1), a), Then: one(prs("gleich\n")), Else: one(prs("ungleich\n"))}),
				one(&If{Cond: eq(k.mk(2), k.mk(3)), Then: one(prs("gleich\n")), Else: one(prs("ungleich\n"))})), nil
		}},
		{"short-circuit", func(p string, k heapKind) ([]Stmt, []*Func) {
			a := v(p, "a", k.t)
			return seq(one(decl(a, k.mk(1))),
				pr(&Bin{Op: "und", L: bl(false), R: eq(k.mk(1), a), T: Bool}), pr(&Bin{Op: "oder", L: bl(true), R: eq(k.mk(1), a), T: Bool}),
				pr(&Bin{Op: "und", L: bl(true), R: eq(k.mk(1), a), T: Bool}), pr(&Bin{Op: "oder", L: bl(false), R: eq(k.mk(2), a), T: Bool})), nil
		}},
		{"falls-arms", func(p string, k heapKind) ([]Stmt, []*Func) {
			a, b := v(p, "a", k.t), v(p, "b", k.t)
			var out []Stmt
			out = append(out, decl(a, k.mk(1)), decl(b, k.mk(2)))
			for i, arms := range [][2]Expr{{a, b}, {k.mk(3), b}, {a, k.mk(4)}, {k.mk(5), k.mk(6)}} {
				for _, cond := range []bool{true, false} {
					r := v(p, fmt.Sprintf("r%d%v", i, cond), k.t)
					out = append(out, decl(r, &Ter{Op: "falls", A: arms[0], B: bl(cond), C: arms[1], T: k.t}))
					out = append(out, k.digest(r)...)
				}
			}
			return out, nil
		}},
		{"variable-roundtrip", func(p string, k heapKind) ([]Stmt, []*Func) {
			if k.t.K == KAny {
				return nil, nil
			}
			a, x, b := v(p, "a", k.t), v(p, "x", Any), v(p, "b", k.t)
			return seq(one(decl(a, k.mk(1))), one(decl(x, &Cast{X: a, T: Any})), one(&Assign{Target: x, Val: &Cast{X: k.mk(2), T: Any}}),
				one(decl(b, &Cast{X: x, T: k.t})), k.digest(b), k.digest(&Cast{X: &Cast{X: k.mk(3), T: Any}, T: k.t}), k.digest(a)), nil
		}},
		{"list-element", func(p string, k heapKind) ([]Stmt, []*Func) {
			if k.t.K == KList {
				return nil, nil // a list of lists needs a type alias for its element type; covered by the kind ListeVonListen
			}
			et := k.t
			lt := ListOf(et)
			a, l := v(p, "a", k.t), v(p, "l", lt)
			return seq(one(decl(a, k.mk(1))), one(decl(l, &ListLit{T: lt, El: []Expr{a, k.mk(2)}})),
				one(&Assign{Target: &Bin{Op: "index", L: l, R: zl(1), T: et}, Val: k.mk(3)}), one(&Assign{Target: &Bin{Op: "index", L: l, R: zl(2), T: et}, Val: a}),
				k.digest(&Bin{Op: "index", L: l, R: zl(1), T: et}), k.digest(&Bin{Op: "index", L: l, R: zl(2), T: et}),
				k.digest(&Bin{Op: "index", L: &Bin{Op: "verkettet", L: l, R: k.mk(4), T: lt}, R: zl(3), T: et}), k.digest(a)), nil
		}},
		{"for-each-source", func(p string, k heapKind) ([]Stmt, []*Func) {
			if k.t.K != KList && k.t.K != KText {
				return nil, nil
			}
			et := Char
			if k.t.K == KList {
				et = k.t.Elem
			}
			a, e1, e2 := v(p, "a", k.t), v(p, "e", et), v(p, "f", et)
			body := func(e *Var) []Stmt {
				if et.IsPrim() {
					return pr(e)
				}
				return one(prs("el\n"))
			}
			return seq(one(decl(a, k.mk(1))), one(&ForEach{Var: e1.Name, T: et, In: a, Body: body(e1)}), one(&ForEach{Var: e2.Name, T: et, In: k.mk(2), Body: body(e2)})), nil
		}},
		{"for-each-early-exit", func(p string, k heapKind) ([]Stmt, []*Func) {
			// break / continue / return executed INSIDE the body of a for-each over the kind (variable and temporary source)
			if k.t.K != KList && k.t.K != KText {
				return nil, nil
			}
			et := Char
			if k.t.K == KList {
				et = k.t.Elem
			}
			a := v(p, "a", k.t)
			mkLoop := func(tag string, src Expr, exit Stmt) Stmt {
				e, i := v(p, "e"+tag, et), v(p, "i"+tag, Zahl)
				return &ForEach{Var: e.Name, T: et, Idx: i.Name, In: src, Body: seq(
					one(&VarDecl{Name: p + "_lok" + tag, T: k.t, Init: k.mk(3)}),
					one(&If{Cond: eq(i, zl(2)), Then: seq(one(prs(tag+"\n")), one(exit))}), pr(i))}
			}
			f := &Func{Name: p + "_suche", Params: []Param{{Name: "w", T: k.t}}, Ret: Zahl, Body: seq(
				one(mkLoop("r", vr("w", k.t), &Return{X: zl(2)})), one(&Return{X: zl(-1)}))}
			g := &Func{Name: p + "_suchetemp", Ret: Zahl, Body: seq(
				one(mkLoop("t", k.mk(5), &Return{X: zl(2)})), one(&Return{X: zl(-1)}))}
			return seq(one(decl(a, k.mk(1))), one(mkLoop("b", a, &Break{})), one(mkLoop("c", a, &Continue{})), one(mkLoop("bt", k.mk(2), &Break{})),
				pr(&Call{F: f, Args: []Expr{a}}), pr(&Call{F: g}), k.digest(a)), []*Func{f, g}
		}},
		{"temporary-in-loop-header", func(p string, k heapKind) ([]Stmt, []*Func) {
			// a heap temporary is created while evaluating the bound of a counting loop / the condition of a
			// while loop / the count of a repeat loop; the loop is left normally, by break and by continue
			a := v(p, "a", k.t)
			cnt := func(e Expr) Expr { // a small Zahl that depends on a fresh temporary of the kind
				return &Bin{Op: "plus", L: &Bin{Op: "mal", L: &Cast{X: eq(e, a), T: Zahl}, R: zl(0), T: Zahl}, R: zl(3), T: Zahl}
			}
			var out []Stmt
			out = append(out, decl(a, k.mk(1)))
			for ti, exit := range []Stmt{nil, &Break{}, &Continue{}} {
				i := v(p, fmt.Sprintf("i%d", ti), Zahl)
				body := pr(i)
				if exit != nil {
					body = seq(one(&If{Cond: eq(i, zl(2)), Then: one(exit)}), body)
				}
				out = append(out, &For{Var: i.Name, T: Zahl, From: zl(1), To: cnt(k.mk(2)), Body: body})
				w := v(p, fmt.Sprintf("w%d", ti), Zahl)
				wbody := seq(one(&Compound{Op: "erhoehe", Target: w, Val: zl(1)}), pr(w))
				if exit != nil {
					wbody = seq(one(&Compound{Op: "erhoehe", Target: w, Val: zl(1)}), one(&If{Cond: eq(w, zl(2)), Then: one(exit)}), pr(w))
				}
				out = append(out, decl(w, zl(0)), &While{Cond: &Bin{Op: "kleiner", L: w, R: cnt(k.mk(3)), T: Bool}, Body: wbody})
				out = append(out, &Repeat{N: cnt(k.mk(4)), Body: one(prs("r\n"))})
			}
			return seq(out, k.digest(a)), nil
		}},
		{"concat-operands", func(p string, k heapKind) ([]Stmt, []*Func) {
			if k.t.K != KList && k.t.K != KText {
				return nil, nil
			}
			a, b := v(p, "a", k.t), v(p, "b", k.t)
			var out []Stmt
			out = append(out, decl(a, k.mk(1)), decl(b, k.mk(2)))
			for i, ops := range [][2]Expr{{a, b}, {k.mk(3), b}, {a, k.mk(4)}, {k.mk(5), k.mk(6)}, {a, a}} {
				r := v(p, fmt.Sprintf("c%d", i), k.t)
				out = append(out, decl(r, &Bin{Op: "verkettet", L: ops[0], R: ops[1], T: k.t}))
				out = append(out, pr(&Un{Op: "laenge", X: r, T: Zahl})...)
			}
			return seq(out, k.digest(a), k.digest(b)), nil
		}},
		{"slice", func(p string, k heapKind) ([]Stmt, []*Func) {
			if k.t.K != KList && k.t.K != KText {
				return nil, nil
			}
			a := v(p, "a", k.t)
			return seq(one(decl(a, k.mk(1))), pr(&Un{Op: "laenge", X: &Ter{Op: "slice", A: a, B: zl(1), C: zl(2), T: k.t}, T: Zahl}),
				pr(&Un{Op: "laenge", X: &Ter{Op: "slice", A: k.mk(2), B: zl(2), C: zl(9), T: k.t}, T: Zahl}), pr(&Un{Op: "laenge", X: &Bin{Op: "ab", L: a, R: zl(2), T: k.t}, T: Zahl})), nil
		}},
		{"field", func(p string, k heapKind) ([]Stmt, []*Func) {
			// the kind as a field of a Kombination: struct literal argument + field assignment
			var fname string
			switch {
			case k.t.K == KText:
				fname = "name"
			case k.t.Eq(ListOf(Zahl)):
				fname = "werte"
			default:
				return nil, nil
			}
			a, e := v(p, "a", k.t), v(p, "e", stQ)
			args := []Expr{tl("n"), &ListLit{T: ListOf(Zahl)}, byl(1)}
			if fname == "name" {
				args[0] = a
			} else {
				args[1] = a
			}
			fld := &FieldOf{Name: fname, X: e, T: k.t}
			return seq(one(decl(a, k.mk(1))), one(decl(e, &StructLit{T: stQ, Args: args})), one(&Assign{Target: fld, Val: k.mk(2)}), one(&Assign{Target: fld, Val: a}),
				one(&Assign{Target: a, Val: fld}), k.digest(fld), k.digest(a)), nil
		}},
	}
}

// exit paths wrap the role statements
type heapPath struct {
	name string
	wrap func(p string, body []Stmt, k heapKind) ([]Stmt, []*Func)
}

func heapPaths() []heapPath {
	return []heapPath{
		{"toplevel", func(p string, body []Stmt, k heapKind) ([]Stmt, []*Func) { return body, nil }},
		{"function-fallthrough", func(p string, body []Stmt, k heapKind) ([]Stmt, []*Func) {
			f := &Func{Name: p + "_run", Ret: Void, Body: body}
			return one(&ExprStmt{X: &Call{F: f}}), []*Func{f}
		}},
		{"early-return-depth1", func(p string, body []Stmt, k heapKind) ([]Stmt, []*Func) {
			f := &Func{Name: p + "_run", Params: []Param{{Name: "n", T: Zahl}}, Ret: Zahl, Body: seq(
				one(&VarDecl{Name: "vorher", T: k.t, Init: k.mk(8)}),
				one(&If{Cond: &Bin{Op: "groesser", L: vr("n", Zahl), R: zl(0), T: Bool}, Then: seq(body, one(&Return{X: zl(1)}))}),
				one(&Return{X: zl(0)}))}
			return seq(pr(&Call{F: f, Args: []Expr{zl(1)}}), pr(&Call{F: f, Args: []Expr{zl(0)}})), []*Func{f}
		}},
		{"early-return-depth2-in-loop", func(p string, body []Stmt, k heapKind) ([]Stmt, []*Func) {
			i := p + "_i"
			f := &Func{Name: p + "_run", Ret: Zahl, Body: seq(
				one(&For{Var: i, T: Zahl, From: zl(1), To: zl(3), Body: seq(
					one(&VarDecl{Name: "imSchleifenrumpf", T: k.t, Init: k.mk(9)}),
					one(&If{Cond: eq(vr(i, Zahl), zl(2)), Then: seq(body, one(&Return{X: vr(i, Zahl)}))}))}),
				one(&Return{X: zl(0)}))}
			return pr(&Call{F: f}), []*Func{f}
		}},
		{"break-from-inner-scope", func(p string, body []Stmt, k heapKind) ([]Stmt, []*Func) {
			i := p + "_i"
			return one(&For{Var: i, T: Zahl, From: zl(1), To: zl(3), Body: seq(
				one(&VarDecl{Name: p + "_vor", T: k.t, Init: k.mk(9)}),
				one(&If{Cond: eq(vr(i, Zahl), zl(2)), Then: seq(body, one(&Break{}))}), pr(vr(i, Zahl)))}), nil
		}},
		{"continue-from-inner-scope", func(p string, body []Stmt, k heapKind) ([]Stmt, []*Func) {
			i := p + "_i"
			return one(&For{Var: i, T: Zahl, From: zl(1), To: zl(3), Body: seq(
				one(&VarDecl{Name: p + "_vor", T: k.t, Init: k.mk(9)}),
				one(&If{Cond: eq(vr(i, Zahl), zl(2)), Then: seq(body, one(&Continue{}))}), pr(vr(i, Zahl)))}), nil
		}},
		{"zero-iteration-loop", func(p string, body []Stmt, k heapKind) ([]Stmt, []*Func) {
			return seq(one(&While{Cond: bl(false), Body: body}), one(&Repeat{N: zl(0), Body: one(prs("nie\n"))}), one(prs("fertig\n"))), nil
		}},
	}
}

func genC05() []*batch.Case {
	var out []*batch.Case
	n := 0
	for _, k := range heapKinds() {
		for _, r := range heapRoles() {
			for _, ph := range heapPaths() {
				n++
				p := fmt.Sprintf("h%d", n)
				body, fs := r.mk(p, k)
				if body == nil {
					continue
				}
				// role-local variable declarations must not collide when the role body is placed in a loop body: they are
				// block-scoped there, which is exactly the point of the exit-path dimension
				wrapped, fs2 := ph.wrap(p, body, k)
				structs := k.structs
				if r.name == "field" {
					structs = []*Type{stQ}
				}
				out = append(out, &batch.Case{Key: k.name + ":" + r.name + ":" + ph.name, Desc: "kind " + k.name + ", role " + r.name + ", exit path " + ph.name,
					Structs: structs, Aliases: k.aliases, Funcs: append(fs, fs2...), Body: seq(wrapped, one(prs("ok\n")))})
			}
		}
	}
	return out
}

// genC05Pairs (thorough): two ownership roles one after the other in the same scope, for every ordered
// pair of roles, every kind and every exit path: the second role runs while the first role's variables
// are alive, and the exit path has to release both.
func genC05Pairs() []*batch.Case {
	var out []*batch.Case
	n := 0
	for _, k := range heapKinds() {
		for _, r1 := range heapRoles() {
			for _, r2 := range heapRoles() {
				for _, ph := range heapPaths() {
					n++
					p := fmt.Sprintf("hp%d", n)
					b1, f1 := r1.mk(p+"a", k)
					b2, f2 := r2.mk(p+"b", k)
					if b1 == nil || b2 == nil {
						continue
					}
					wrapped, fs := ph.wrap(p, seq(b1, b2), k)
					structs := k.structs
					if r1.name == "field" || r2.name == "field" {
						structs = append(append([]*Type{}, structs...), stQ)
					}
					out = append(out, &batch.Case{Key: k.name + ":" + r1.name + "+" + r2.name + ":" + ph.name, Desc: "kind " + k.name + ", roles " + r1.name + " then " + r2.name + ", exit path " + ph.name,
						Structs: structs, Aliases: k.aliases, Funcs: append(append(f1, f2...), fs...), Body: seq(wrapped, one(prs("ok\n")))})
				}
			}
		}
	}
	return out
}

var ledgerSummary = regexp.MustCompile(`LEDGER-SUMMARY: calls=(\d+) violations=(\d+) leaked_blocks=(\d+) leaked_bytes=(\d+)`)

// memoryVerdict inspects stderr of a program run with the ledger and/or ASan.
func memoryVerdict(r rx.RunResult) string {
	var probs []string
	for _, l := range strings.Split(r.Stderr, "\n") {
		if strings.HasPrefix(l, "LEDGER: ") {
			probs = append(probs, l)
		}
	}
	if m := ledgerSummary.FindStringSubmatch(r.Stderr); m != nil {
		if r.Exit == 0 && m[3] != "0" {
			probs = append(probs, "blocks still allocated at normal exit: "+m[3]+" ("+m[4]+" bytes)")
		}
	} else if r.Exit == 0 {
		probs = append(probs, "no ledger summary on stderr")
	}
	if strings.Contains(r.Stderr, "AddressSanitizer") || strings.Contains(r.Stderr, "LeakSanitizer") {
		i := strings.Index(r.Stderr, "Sanitizer")
		j := i + 400
		if j > len(r.Stderr) {
			j = len(r.Stderr)
		}
		probs = append(probs, "sanitizer report: "+r.Stderr[max(0, i-10):j])
	}
	if len(probs) > 4 {
		probs = probs[:4]
	}
	return strings.Join(probs, "\n")
}

func ledgerBuild() rx.BuildOpts {
	return rx.BuildOpts{ExtraLink: []string{"-Wl,--wrap=ddp_reallocate"}, ExtraObjects: []string{filepath.Join(rx.VDir, "c", "ledger.o")}}
}

func runC05(tier string) int {
	c := ev.New("C05", tier)
	c.Budget(map[string]int{"quick": 420, "thorough": 2700}[tier])
	levels := []uint{1, 2}
	if tier == "thorough" {
		levels = []uint{0, 1, 2}
	}
	cases := genC05()
	st := batch.Run(c, cases, batch.Opts{Prop: "C05", Family: "own", Levels: levels, BatchSize: 12, Asan: true, Build: ledgerBuild(), Extra: memoryVerdict})
	c.Set("stats", st)
	if tier == "thorough" {
		pairs := genC05Pairs()
		st2 := batch.Run(c, pairs, batch.Opts{Prop: "C05", Family: "own2", Levels: levels, BatchSize: 12, Asan: true, Build: ledgerBuild(), Extra: memoryVerdict})
		c.Set("stats_role_pairs", st2)
		st.Cases += st2.Cases
		st.Unspecified += st2.Unspecified
		st.Runs += st2.Runs
		cases = append(cases, pairs...)
	}
	c.Sample(map[string]any{"case": cases[len(cases)/2].Desc})
	c.Sample(map[string]any{"case": cases[len(cases)/5].Desc})
	c.Set("evaluations", st.Cases)
	c.Set("states", st.Cases-st.Unspecified)
	c.Set("transitions", st.Runs)
	c.Set("traces_validated_against_impl", st.Runs)
	c.Set("distinct_nontrivial", len(cases))
	c.Set("rule", "state = (value kind, ownership role, exit path); every program runs with the allocator ledger (each ddp_reallocate checked against a pointer→size table, table must be empty at normal exit) on the ASan build of runtime+stdlib; stdout is compared with the cdm prediction")
	c.Set("bounds", map[string]any{"kinds": len(heapKinds()), "roles": len(heapRoles()), "paths": len(heapPaths()), "opt_levels": levels, "role_pairs": tier == "thorough"})
	c.Assume("blocks obtained with malloc directly (not through ddp_reallocate) are only seen by ASan/LSan", "Laufzeitfehler exits are excluded (exit() path)")
	return c.Finish()
}

func replayC05(dir string) int {
	ok, msg := batch.ReplayDir(dir)
	fmt.Println("C05 replay (stdout/exit only; run ./run C05 quick for the memory monitors):", ok, msg)
	if !ok {
		fmt.Printf("VIOLATION property=C05 replay=%s\n", dir)
		return 1
	}
	return 0
}

func init() { checks["C05"] = check{runC05, replayC05} }

type rxRun = rx.RunResult

// memoryVerdictAsanOnly: for checks that run on the ASan runtime without the ledger.
func memoryVerdictAsanOnly(r rx.RunResult) string {
	if strings.Contains(r.Stderr, "AddressSanitizer") || strings.Contains(r.Stderr, "LeakSanitizer") {
		i := strings.Index(r.Stderr, "Sanitizer")
		j := i + 400
		if j > len(r.Stderr) {
			j = len(r.Stderr)
		}
		return "sanitizer report: " + r.Stderr[max(0, i-10):j]
	}
	return ""
}
