package main

// C01 family "shape": operator precedence and associativity as written in the source.
// All expressions  A op1 B op2 C  (and a prefix operator in front) are printed WITHOUT parentheses;
// the expected value comes from the tree the reference precedence ladder prescribes
// (expressions.go is documented as "sorted by precedence in ascending order": oder < und <
// logisch oder < logisch kontra < logisch und < gleich/ungleich < Vergleiche < Verschiebung <
// plus/minus/verkettet < mal/durch/modulo < unäre Operatoren < hoch; all binary operators group to
// the left except hoch).

import (
	"fmt"

	"ddpmc/internal/batch"
	. "ddpmc/internal/cdm"
)

type shapeOp struct {
	name string
	prec int
	// surface: l <mid> r <post>
	mid, post string
}

var shapeOpsZ = []shapeOp{
	{"logoder", 5, "logisch oder", ""}, {"logxor", 6, "logisch kontra", ""}, {"logund", 7, "logisch und", ""},
	{"shl", 10, "um", "Bit nach Links verschoben"}, {"shr", 10, "um", "Bit nach Rechts verschoben"},
	{"plus", 11, "plus", ""}, {"minus", 11, "minus", ""}, {"mal", 12, "mal", ""}, {"modulo", 12, "modulo", ""},
}

var shapeOpsK = []shapeOp{
	{"plus", 11, "plus", ""}, {"minus", 11, "minus", ""}, {"mal", 12, "mal", ""}, {"durch", 12, "durch", ""}, {"hoch", 14, "hoch", ""},
}

var shapeOpsB = []shapeOp{{"oder", 3, "oder", ""}, {"und", 4, "und", ""}}

func shapeJoin(l string, op shapeOp, r string) string {
	s := l + " " + op.mid + " " + r
	if op.post != "" {
		s += " " + op.post
	}
	return s
}

// shapeTree builds the tree for  a op1 b op2 c  by the reference ladder.
func shapeTree(a Expr, op1 shapeOp, b Expr, op2 shapeOp, c Expr, rt func(op string, l, r Expr) *Type) Expr {
	mk := func(op shapeOp, l, r Expr) Expr { return &Bin{Op: op.name, L: l, R: r, T: rt(op.name, l, r)} }
	leftFirst := op1.prec >= op2.prec
	if op1.name == "hoch" { // the exponent is parsed as a whole unary/power expression
		leftFirst = op2.name != "hoch" && op2.prec < 13
	}
	if leftFirst {
		return mk(op2, mk(op1, a, b), c)
	}
	return mk(op1, a, mk(op2, b, c))
}

func genShapes() []*batch.Case {
	var out []*batch.Case
	n := 0
	add := func(key, src string, tree Expr) {
		n++
		out = append(out, &batch.Case{Key: key, Desc: "unparenthesised: " + src + "   expected tree: " + Src(tree),
			Body: pr(&RawLit{Raw: src, T: tree.Ty(), V: nil}), Funcs: nil})
		// RawLit.V must hold the value of the expected tree: evaluate through a probe program
		pv := fmt.Sprintf("shape%d", n)
		v, ok := (&Program{Main: []Stmt{&VarDecl{Name: pv, T: tree.Ty(), Init: tree}}}).FinalValue(pv)
		if !ok {
			out = out[:len(out)-1]
			return
		}
		out[len(out)-1].Body = pr(&RawLit{Raw: src, T: tree.Ty(), V: v})
	}
	rtZ := func(op string, l, r Expr) *Type { return ArithType(op, l.Ty(), r.Ty()) }
	// integer operators: all ordered pairs × value triples × optional prefix operator
	triples := [][3]int64{{7, 3, 2}, {2, 5, 3}, {12, 4, 1}, {1, 2, 9}}
	for _, o1 := range shapeOpsZ {
		for _, o2 := range shapeOpsZ {
			for _, t := range triples {
				a, b, c := zl(t[0]), zl(t[1]), zl(t[2])
				src := shapeJoin(shapeJoin(fmt.Sprint(t[0]), o1, fmt.Sprint(t[1])), o2, fmt.Sprint(t[2]))
				if o1.post != "" && o2.prec > o1.prec {
					// the shift operators are circumfix (a um N Bit nach Links verschoben): a tighter binding
					// operator can only follow inside the shift count
					src = shapeJoin(fmt.Sprint(t[0]), o1, shapeJoin(fmt.Sprint(t[1]), o2, fmt.Sprint(t[2])))
				}
				add("Z:"+o1.name+","+o2.name, src, shapeTree(a, o1, b, o2, c, rtZ))
				// prefix minus binds tighter than every binary operator
				add("Z:neg,"+o1.name+","+o2.name, "-"+src, shapeTree(&Un{Op: "neg", X: a, T: Zahl}, o1, b, o2, c, rtZ))
			}
		}
	}
	ktr := [][3]float64{{8, 2, 2}, {1.5, 4, 0.5}, {9, 3, 2}}
	for _, o1 := range shapeOpsK {
		for _, o2 := range shapeOpsK {
			for _, t := range ktr {
				a, b, c := kl(t[0]), kl(t[1]), kl(t[2])
				src := shapeJoin(shapeJoin(FloatLit(t[0]), o1, FloatLit(t[1])), o2, FloatLit(t[2]))
				add("K:"+o1.name+","+o2.name, src, shapeTree(a, o1, b, o2, c, rtZ))
			}
		}
	}
	// -a hoch b  is  -(a hoch b)
	add("K:neg,hoch", "-2,0 hoch 2,0", &Un{Op: "neg", X: &Bin{Op: "hoch", L: kl(2), R: kl(2), T: Komma}, T: Komma})
	add("K:betrag,plus", "der Betrag von -3 plus 1", &Bin{Op: "plus", L: &Un{Op: "betrag", X: zl(-3), T: Zahl}, R: zl(1), T: Zahl})
	add("Z:laenge,plus", "die Länge von \"abc\" plus 1", &Bin{Op: "plus", L: &Un{Op: "laenge", X: tl("abc"), T: Zahl}, R: zl(1), T: Zahl})
	add("Z:lognicht,logund", "logisch nicht 5 logisch und 3", &Bin{Op: "logund", L: &Un{Op: "lognicht", X: zl(5), T: Zahl}, R: zl(3), T: Zahl})
	// boolean connectives and comparisons
	bools := []bool{true, false}
	for _, o1 := range shapeOpsB {
		for _, o2 := range shapeOpsB {
			for _, x := range bools {
				for _, y := range bools {
					for _, z := range bools {
						w := func(b bool) string {
							if b {
								return "wahr"
							}
							return "falsch"
						}
						src := shapeJoin(shapeJoin(w(x), o1, w(y)), o2, w(z))
						tree := shapeTree(bl(x), o1, bl(y), o2, bl(z), func(string, Expr, Expr) *Type { return Bool })
						add("B:"+o1.name+","+o2.name, src, tree)
						add("B:nicht,"+o1.name+","+o2.name, "nicht "+src, shapeTree(&Un{Op: "nicht", X: bl(x), T: Bool}, o1, bl(y), o2, bl(z), func(string, Expr, Expr) *Type { return Bool }))
					}
				}
			}
		}
	}
	cmp := []struct{ name, mid string }{{"kleiner", "kleiner als"}, {"groesser", "größer als"}, {"kleinergleich", "kleiner als, oder"}, {"groessergleich", "größer als, oder"}}
	for _, cop := range cmp {
		for _, ao := range []shapeOp{shapeOpsZ[5], shapeOpsZ[6], shapeOpsZ[7]} { // plus minus mal bind tighter than comparisons
			for _, t := range [][4]int64{{1, 2, 3, 4}, {5, 1, 2, 2}, {2, 2, 2, 2}} {
				l := &Bin{Op: ao.name, L: zl(t[0]), R: zl(t[1]), T: Zahl}
				r := &Bin{Op: ao.name, L: zl(t[2]), R: zl(t[3]), T: Zahl}
				src := fmt.Sprintf("%d %s %d %s %d %s %d ist", t[0], ao.mid, t[1], cop.mid, t[2], ao.mid, t[3])
				add("cmp:"+cop.name+","+ao.name, src, &Bin{Op: cop.name, L: l, R: r, T: Bool})
				// comparison results combined with und/oder and compared with gleich
				src2 := src + " und " + fmt.Sprintf("%d gleich %d ist", t[0], t[2])
				add("cmp-und-gleich:"+cop.name+","+ao.name, src2, &Bin{Op: "und", L: &Bin{Op: cop.name, L: l, R: r, T: Bool}, R: eq(zl(t[0]), zl(t[2])), T: Bool})
			}
		}
	}
	// postfix operators bind tighter than arithmetic: indexing, slicing, cast, field access
	add("post:cast,mal", "2 mal 3,5 als Zahl", &Bin{Op: "mal", L: zl(2), R: &Cast{X: kl(3.5), T: Zahl}, T: Zahl})
	add("post:laenge,slice", "die Länge von \"abcdef\" im Bereich von 2 bis 4", &Un{Op: "laenge", X: &Ter{Op: "slice", A: tl("abcdef"), B: zl(2), C: zl(4), T: Text}, T: Zahl})
	add("post:verkettet,cast", "\"a\" verkettet mit 12 als Text verkettet mit 'c'", &Bin{Op: "verkettet", L: &Bin{Op: "verkettet", L: tl("a"), R: &Cast{X: zl(12), T: Text}, T: Text}, R: cl('c'), T: Text})
	return out
}
