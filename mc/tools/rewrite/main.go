// c16rewrite — overlay generator for property C16 (compilation is repeatable).
//
// Loads the CURRENT tree of the repository under verification with go/packages (typed syntax) and
// writes rewritten COPIES of every file that contains
//
//	for … range <map>            →  for … range verifhook.Range(<map>, "<site>")
//	maps.Keys/Values (x/exp)     →  verifhook.Keys/Values(<map>, "<site>")
//	maps.Keys/Values/All (std)   →  verifhook.SeqKeys/SeqValues/SeqAll(<map>, "<site>")
//	sort.Slice(x, less)          →  verifhook.Sort(x, less, "<site>")
//
// into -out, plus an overlay JSON (the hooks overlay + the rewritten copies) for `go build -overlay`.
// The repository is never written. The edits are byte splices inside one line, so line numbers of
// the rewritten copies equal those of the originals.
//
// After generating, the tree is loaded AGAIN through the new overlay and scanned: any remaining
// range-over-map, maps.Keys/Values/All/Collect, sort.Slice/Sort, slices.SortFunc, reflect map
// iteration, go statement or select statement in src/ or cmd/ is "unowned nondeterminism" → exit 2.
//
// exit 0 ok, exit 2 on every failure.
package main

import (
	"encoding/json"
	"flag"
	"fmt"
	"go/ast"
	"go/token"
	"go/types"
	"os"
	"path/filepath"
	"sort"
	"strings"

	"golang.org/x/tools/go/packages"
)

const hookPath = "github.com/DDP-Projekt/Kompilierer/src/verifhook"

type Site struct {
	ID      string `json:"id"`
	File    string `json:"file"` // relative to the repository
	Line    int    `json:"line"`
	Func    string `json:"func"`
	Kind    string `json:"kind"` // range | keys | values | seqkeys | seqvalues | seqall | sort
	KeyType string `json:"key_type,omitempty"`
	ElType  string `json:"elem_type,omitempty"`
	Pkg     string `json:"pkg"`
}

type edit struct {
	off  int // byte offset in the original file
	del  int // bytes removed
	ins  string
	rank int // order among edits at the same offset
}

func die(f string, a ...any) {
	fmt.Fprintf(os.Stderr, "c16rewrite: "+f+"\n", a...)
	os.Exit(2)
}

func load(repo, tags, overlay string) []*packages.Package {
	flags := []string{"-tags=" + tags}
	ov := map[string][]byte{}
	if overlay != "" {
		var o struct{ Replace map[string]string }
		b, err := os.ReadFile(overlay)
		if err != nil {
			die("%v", err)
		}
		if err := json.Unmarshal(b, &o); err != nil {
			die("%s: %v", overlay, err)
		}
		for dst, src := range o.Replace {
			c, err := os.ReadFile(src)
			if err != nil {
				die("%v", err)
			}
			ov[dst] = c
		}
	}
	cfg := &packages.Config{
		Mode: packages.NeedName | packages.NeedFiles | packages.NeedCompiledGoFiles | packages.NeedSyntax |
			packages.NeedTypes | packages.NeedTypesInfo | packages.NeedImports | packages.NeedModule,
		Dir:        repo,
		BuildFlags: flags,
		Env:        os.Environ(),
		Overlay:    ov,
	}
	pkgs, err := packages.Load(cfg, "./src/...", "./cmd/...")
	if err != nil {
		die("go/packages: %v", err)
	}
	bad := false
	for _, p := range pkgs {
		for _, e := range p.Errors {
			fmt.Fprintf(os.Stderr, "c16rewrite: %s: %v\n", p.PkgPath, e)
			bad = true
		}
	}
	if bad {
		die("the tree does not type-check")
	}
	if len(pkgs) == 0 {
		die("no packages loaded")
	}
	return pkgs
}

// calleeOf resolves the package path and name of a called package-level function.
func calleeOf(info *types.Info, call *ast.CallExpr) (pkg, name string, sel *ast.SelectorExpr) {
	fun := call.Fun
	for {
		switch f := fun.(type) {
		case *ast.ParenExpr:
			fun = f.X
			continue
		case *ast.IndexExpr:
			fun = f.X
			continue
		case *ast.IndexListExpr:
			fun = f.X
			continue
		}
		break
	}
	s, ok := fun.(*ast.SelectorExpr)
	if !ok {
		return
	}
	obj, ok := info.Uses[s.Sel].(*types.Func)
	if !ok || obj.Pkg() == nil {
		return
	}
	if sig, ok := obj.Type().(*types.Signature); ok && sig.Recv() != nil {
		return
	}
	return obj.Pkg().Path(), obj.Name(), s
}

func isMap(t types.Type) (*types.Map, bool) {
	if t == nil {
		return nil, false
	}
	switch u := t.Underlying().(type) {
	case *types.Map:
		return u, true
	case *types.Interface:
		// type parameter whose core type is a map
		if tp, ok := t.(*types.TypeParam); ok {
			_ = tp
			var m *types.Map
			okAll := u.NumEmbeddeds() > 0
			for i := 0; i < u.NumEmbeddeds(); i++ {
				if un, ok := u.EmbeddedType(i).(*types.Union); ok {
					for j := 0; j < un.Len(); j++ {
						if mm, ok := un.Term(j).Type().Underlying().(*types.Map); ok {
							m = mm
						} else {
							okAll = false
						}
					}
				} else if mm, ok := u.EmbeddedType(i).Underlying().(*types.Map); ok {
					m = mm
				} else {
					okAll = false
				}
			}
			if m != nil && okAll {
				return m, true
			}
			if m != nil {
				return m, true // mixed constraint that can be a map: treat as map (post-check will flag)
			}
		}
	}
	return nil, false
}

type finding struct {
	pos  token.Position
	what string
}

// scan walks one package. With rewrite=true it returns the edits per file and the sites; it always
// returns the list of *unowned* constructs (everything that is nondeterministic and is not one of
// the rewritable forms; with rewrite=false the rewritable forms count as unowned too).
func scan(p *packages.Package, repo string, rewrite bool) (map[string][]edit, []Site, []finding, map[string]map[string]int) {
	edits := map[string][]edit{}
	var sites []Site
	var unowned []finding
	pkgUses := map[string]map[string]int{} // file -> imported package path -> remaining uses
	qual := func(pk *types.Package) string { return pk.Path() }
	for _, f := range p.Syntax {
		tf := p.Fset.File(f.Pos())
		fname := tf.Name()
		rel, err := filepath.Rel(repo, fname)
		inRepo := err == nil && !strings.HasPrefix(rel, "..")
		if strings.HasPrefix(filepath.Base(fname), "zz_verif_") || strings.HasSuffix(fname, "_test.go") {
			continue // framework hook files added by the overlay
		}
		_, statErr := os.Stat(fname)
		physical := inRepo && statErr == nil
		// count uses of imported packages (to neutralise imports that become unused)
		uses := map[string]int{}
		pkgUses[fname] = uses
		ast.Inspect(f, func(n ast.Node) bool {
			if id, ok := n.(*ast.Ident); ok {
				if pn, ok := p.TypesInfo.Uses[id].(*types.PkgName); ok {
					uses[pn.Imported().Path()]++
				}
			}
			return true
		})
		ordinal := map[string]int{}
		var funcStack []string
		curFunc := func() string {
			if len(funcStack) == 0 {
				return "init"
			}
			return funcStack[len(funcStack)-1]
		}
		newSite := func(pos token.Pos, kind string, mt *types.Map, el types.Type) Site {
			fn := curFunc()
			key := fn + ":" + kind
			ordinal[key]++
			s := Site{File: rel, Line: p.Fset.Position(pos).Line, Func: fn, Kind: kind, Pkg: p.PkgPath}
			s.ID = fmt.Sprintf("%s:%s:%s#%d", rel, fn, kind, ordinal[key])
			if mt != nil {
				s.KeyType = types.TypeString(mt.Key(), qual)
				if _, isParam := mt.Key().(*types.TypeParam); isParam {
					s.KeyType = "typeparam " + s.KeyType // fingerprint is checked at run time
				}
				s.ElType = types.TypeString(mt.Elem(), qual)
			} else if el != nil {
				s.ElType = types.TypeString(el, qual)
			}
			return s
		}
		addEdit := func(pos token.Pos, del int, ins string, rank int) {
			edits[fname] = append(edits[fname], edit{off: tf.Offset(pos), del: del, ins: ins, rank: rank})
		}
		flag := func(pos token.Pos, what string) {
			unowned = append(unowned, finding{p.Fset.Position(pos), what})
		}
		checkFile := func(pos token.Pos) bool {
			if !physical {
				flag(pos, "nondeterministic construct in a file that is not a plain source file of the repository (cgo-generated?): cannot be rewritten")
				return false
			}
			// cgo-processed files carry //line directives: offsets would not match the original
			if p.Fset.PositionFor(pos, false).Filename != p.Fset.PositionFor(pos, true).Filename {
				flag(pos, "nondeterministic construct in a generated file")
				return false
			}
			return true
		}
		var visit func(n ast.Node) bool
		visit = func(n ast.Node) bool {
			switch x := n.(type) {
			case *ast.FuncDecl:
				name := x.Name.Name
				if x.Recv != nil && len(x.Recv.List) > 0 {
					t := x.Recv.List[0].Type
					for {
						switch tt := t.(type) {
						case *ast.StarExpr:
							t = tt.X
							continue
						case *ast.IndexExpr:
							t = tt.X
							continue
						case *ast.IndexListExpr:
							t = tt.X
							continue
						case *ast.ParenExpr:
							t = tt.X
							continue
						}
						break
					}
					if id, ok := t.(*ast.Ident); ok {
						name = id.Name + "." + name
					}
				}
				funcStack = append(funcStack, name)
				if x.Body != nil {
					ast.Inspect(x.Body, visit)
				}
				funcStack = funcStack[:len(funcStack)-1]
				return false
			case *ast.GoStmt:
				flag(x.Pos(), "go statement (the compiler is assumed single-threaded)")
			case *ast.SelectStmt:
				if len(x.Body.List) > 1 {
					flag(x.Pos(), "select statement with several cases")
				}
			case *ast.RangeStmt:
				if mt, ok := isMap(p.TypesInfo.TypeOf(x.X)); ok {
					if !rewrite {
						flag(x.Pos(), "range over a map")
						break
					}
					if !checkFile(x.X.Pos()) {
						break
					}
					s := newSite(x.Pos(), "range", mt, nil)
					sites = append(sites, s)
					addEdit(x.X.Pos(), 0, "verifhook.Range(", 1)
					addEdit(x.X.End(), 0, fmt.Sprintf(", %q)", s.ID), 0)
				}
			case *ast.CallExpr:
				pkg, name, sel := calleeOf(p.TypesInfo, x)
				if sel == nil {
					break
				}
				full := pkg + "." + name
				kind := ""
				switch full {
				case "golang.org/x/exp/maps.Keys":
					kind = "Keys"
				case "golang.org/x/exp/maps.Values":
					kind = "Values"
				case "maps.Keys":
					kind = "SeqKeys"
				case "maps.Values":
					kind = "SeqValues"
				case "maps.All":
					kind = "SeqAll"
				case "sort.Slice":
					kind = "Sort"
				case "sort.Sort", "slices.SortFunc", "slices.Sort", "maps.Collect", "maps.Insert", "reflect.Value.MapKeys", "reflect.Value.MapRange":
					if full == "maps.Collect" || full == "maps.Insert" {
						break // building a map is order-independent
					}
					if full == "slices.Sort" {
						break // ties of ordered basic values are indistinguishable
					}
					flag(x.Pos(), "call of "+full+" (unstable sort / map iteration that the rewriter does not own)")
				}
				if kind == "" {
					break
				}
				if !rewrite {
					flag(x.Pos(), "call of "+full)
					break
				}
				if !checkFile(x.Pos()) {
					break
				}
				if _, ok := sel.X.(*ast.Ident); !ok || x.Fun != ast.Expr(sel) {
					flag(x.Pos(), "call of "+full+" in a form the rewriter does not handle (explicit instantiation / parenthesised)")
					break
				}
				if x.Ellipsis.IsValid() || len(x.Args) == 0 {
					flag(x.Pos(), "call of "+full+" with unexpected arguments")
					break
				}
				var s Site
				if kind == "Sort" {
					var el types.Type
					if sl, ok := p.TypesInfo.TypeOf(x.Args[0]).Underlying().(*types.Slice); ok {
						el = sl.Elem()
					} else {
						flag(x.Pos(), "sort.Slice on a value that is not statically a slice")
						break
					}
					s = newSite(x.Pos(), "sort", nil, el)
				} else {
					mt, ok := isMap(p.TypesInfo.TypeOf(x.Args[0]))
					if !ok {
						flag(x.Pos(), "argument of "+full+" is not statically a map")
						break
					}
					s = newSite(x.Pos(), strings.ToLower(kind), mt, nil)
				}
				sites = append(sites, s)
				uses[pkg]--
				addEdit(sel.Pos(), int(sel.End()-sel.Pos()), "verifhook."+kind, 2)
				last := x.Args[len(x.Args)-1]
				addEdit(last.End(), 0, fmt.Sprintf(", %q", s.ID), 3)
			}
			return true
		}
		ast.Inspect(f, visit)
		// method values like reflect.Value.MapKeys are selections, not package functions
		ast.Inspect(f, func(n ast.Node) bool {
			if se, ok := n.(*ast.SelectorExpr); ok {
				if sl, ok := p.TypesInfo.Selections[se]; ok {
					if fn, ok := sl.Obj().(*types.Func); ok && fn.Pkg() != nil && fn.Pkg().Path() == "reflect" && (fn.Name() == "MapKeys" || fn.Name() == "MapRange") {
						flag(se.Pos(), "reflect map iteration")
					}
				}
			}
			return true
		})
		if len(edits[fname]) > 0 {
			// import of the shim on the line of the package clause (keeps line numbers)
			addEdit(f.Name.End(), 0, "; import verifhook \""+hookPath+"\"", 0)
			for _, imp := range f.Imports {
				path := strings.Trim(imp.Path.Value, "\"`")
				if imp.Name != nil && (imp.Name.Name == "_" || imp.Name.Name == ".") {
					continue
				}
				if n, seen := uses[path]; seen && n == 0 {
					if imp.Name != nil {
						addEdit(imp.Name.Pos(), int(imp.Name.End()-imp.Name.Pos()), "_", 0)
					} else {
						addEdit(imp.Path.Pos(), 0, "_ ", 0)
					}
				}
			}
		}
	}
	return edits, sites, unowned, pkgUses
}

func apply(src []byte, es []edit) []byte {
	sort.SliceStable(es, func(i, j int) bool {
		if es[i].off != es[j].off {
			return es[i].off < es[j].off
		}
		return es[i].rank < es[j].rank
	})
	var out []byte
	cur := 0
	for _, e := range es {
		if e.off < cur {
			die("overlapping edits at offset %d", e.off)
		}
		out = append(out, src[cur:e.off]...)
		out = append(out, e.ins...)
		cur = e.off + e.del
	}
	out = append(out, src[cur:]...)
	return out
}

func main() {
	repo := flag.String("repo", "/repo", "repository under verification")
	out := flag.String("out", "", "directory for the rewritten copies")
	ovIn := flag.String("overlay-in", "", "hooks overlay (JSON) to extend")
	ovOut := flag.String("overlay-out", "", "combined overlay to write")
	sitesOut := flag.String("sites", "", "site inventory (JSON) to write")
	tags := flag.String("tags", "byollvm verif", "build tags")
	flag.Parse()
	if *out == "" || *ovOut == "" || *sitesOut == "" {
		die("usage: c16rewrite -repo R -out DIR -overlay-in hooks.json -overlay-out all.json -sites sites.json")
	}
	abs, err := filepath.Abs(*repo)
	if err != nil {
		die("%v", err)
	}
	if r, err := filepath.EvalSymlinks(abs); err == nil {
		abs = r
	}
	overlay := struct{ Replace map[string]string }{Replace: map[string]string{}}
	if *ovIn != "" {
		b, err := os.ReadFile(*ovIn)
		if err != nil {
			die("%v", err)
		}
		if err := json.Unmarshal(b, &overlay); err != nil {
			die("overlay-in: %v", err)
		}
	}
	os.RemoveAll(*out)
	if err := os.MkdirAll(*out, 0o755); err != nil {
		die("%v", err)
	}
	pkgs := load(abs, *tags, *ovIn)
	var all []Site
	var unowned []finding
	nfiles := 0
	for _, p := range pkgs {
		if p.PkgPath == hookPath {
			continue
		}
		edits, sites, un, _ := scan(p, abs, true)
		unowned = append(unowned, un...)
		all = append(all, sites...)
		for fname, es := range edits {
			src, err := os.ReadFile(fname)
			if err != nil {
				die("%v", err)
			}
			rel, _ := filepath.Rel(abs, fname)
			dst := filepath.Join(*out, rel)
			os.MkdirAll(filepath.Dir(dst), 0o755)
			if err := os.WriteFile(dst, apply(src, es), 0o644); err != nil {
				die("%v", err)
			}
			if _, dup := overlay.Replace[fname]; dup {
				die("%s is already replaced by the hooks overlay", fname)
			}
			overlay.Replace[fname] = dst
			nfiles++
		}
	}
	for _, u := range unowned {
		fmt.Fprintf(os.Stderr, "c16rewrite: UNOWNED NONDETERMINISM %s: %s\n", u.pos, u.what)
	}
	if len(unowned) > 0 {
		die("%d constructs cannot be owned by the explorer", len(unowned))
	}
	b, _ := json.MarshalIndent(overlay, "", " ")
	if err := os.WriteFile(*ovOut, b, 0o644); err != nil {
		die("%v", err)
	}
	// ---- post-check: load the tree again THROUGH the overlay --------------------------------
	pkgs2 := load(abs, *tags, *ovOut)
	left := 0
	calls := 0
	for _, p := range pkgs2 {
		if p.PkgPath == hookPath {
			continue
		}
		_, _, un, _ := scan(p, abs, false)
		for _, u := range un {
			fmt.Fprintf(os.Stderr, "c16rewrite: POST-CHECK: un-rewritten %s: %s\n", u.pos, u.what)
			left++
		}
		for _, f := range p.Syntax {
			if strings.HasPrefix(filepath.Base(p.Fset.File(f.Pos()).Name()), "zz_verif_") {
				continue
			}
			ast.Inspect(f, func(n ast.Node) bool {
				if c, ok := n.(*ast.CallExpr); ok {
					if pk, _, sel := calleeOf(p.TypesInfo, c); sel != nil && pk == hookPath {
						calls++
					}
				}
				return true
			})
		}
	}
	if left > 0 {
		die("post-check: %d nondeterministic constructs remain (unowned nondeterminism)", left)
	}
	if calls != len(all) {
		die("post-check: %d shim calls in the rewritten tree, %d sites generated", calls, len(all))
	}
	sort.Slice(all, func(i, j int) bool { return all[i].ID < all[j].ID })
	seen := map[string]bool{}
	for _, s := range all {
		if seen[s.ID] {
			die("duplicate site id %s", s.ID)
		}
		seen[s.ID] = true
	}
	b, _ = json.MarshalIndent(all, "", " ")
	if err := os.WriteFile(*sitesOut, b, 0o644); err != nil {
		die("%v", err)
	}
	fmt.Fprintf(os.Stderr, "c16rewrite: %d sites in %d files, %d packages; post-check clean\n", len(all), nfiles, len(pkgs))
}
